"""Layer K — Kani on the real, unmodified expansion of small corpus enums (DESIGN §3.4 "per instance,
Kani additionally proves …").  Every harness is loop-free or fully unwound (unwinding assertions on)
over the FULL input domain of that enum: every value of the repr for try_from, every variant, every
ordered pair for range, every 3-step iterator history.  Kani's built-in checks (invalid enum value
from transmute, unreachable_unchecked, out-of-bounds, arithmetic overflow, invalid pointer) are what
this layer adds over the native runs of layer I.  Bounded over enums; complete per enum.
"""
import os
import re
import shutil
from . import corpus, expand
from .common import REPO, REPRS, run, Undecided
from .corpus import EnumSpec, mk_variants, CFG
from .layer_i import lit


def k_specs(tier="quick"):
    out = []
    sets = [
        ("i8", [-128, -127, -5, -4, 3, 127], "h"),          # runs at both type limits, negative later run
        ("i8", [-2, -1, 0, 1], "g"),
        ("u8", [0, 1, 2, 254, 255], "h"),
        ("u16", [7, 8, 9], "g"),
        ("i64", [-9223372036854775807, -9223372036854775806, 0, 9223372036854775807], "h"),
        ("u64", [5], "one"),
        # repr(i128/u128) enums make kani-compiler 0.68 panic (rvalue.rs:1009 TryFromIntError) — left to layers T and I
        ("isize", [-1, 0, 1, 2], "g"),
    ]
    if tier != "quick":
        sets += [("i16", [-32768, -1, 0, 1, 32767], "h"), ("u32", [0, 1, 2, 3, 4, 5, 6, 7], "g"), ("usize", [1, 3, 5], "h"),
                 ("i32", [-2147483648, 2147483647], "h")]
    for r, ds, tag in sets:
        gap = all(b - a == 1 for a, b in zip(ds, ds[1:]))
        cfgs = ["ALL_TABLE", "ALL_MATCH"] + (["RANGE"] if gap else []) + (["ALL_AUTO"] if tier != "quick" else [])
        for c in cfgs:
            vs = mk_variants(ds, order="shuffled", implicit_ok=False, renames={0: "first"})
            out.append(EnumSpec("k_%s_%s_%s" % (r, tag, c.lower()), r, vs, list(CFG[c]), ident="En", tags={"K", c}))
    return out


def gen_harness(spec, mod):
    r = spec.repr
    En = spec.ident
    sv = spec.sorted_variants()
    n = len(sv)
    cfg = spec.cfg
    runs = spec.runs()
    L = []
    w = L.append
    w("    #[cfg(kani)]")
    w("    mod kani_harness {")
    w("        use super::*;")
    w("        #[allow(unused_imports)] use ::core::convert::TryFrom;")
    w("        const N: usize = %d;" % n)
    w("        const VARS: [%s; N] = [%s];" % (En, ", ".join("%s::%s" % (En, v.ident) for v in sv)))
    w("        const DISC: [%s; N] = [%s];" % (r, ", ".join(lit(r, v.disc) for v in sv)))
    w("        const NAMELEN: [usize; N] = [%s];" % ", ".join(str(len(v.name.encode())) for v in sv))
    w("        fn rank_of(x: %s) -> Option<usize> { %s None }" % (r, " ".join("if x == %s { return Some(%d); }" % (lit(r, v.disc), i) for i, v in enumerate(sv))))
    w("        fn any_idx() -> usize { let i: u8 = kani::any(); kani::assume((i as usize) < N); i as usize }")
    unwind = max(n, len(runs), 3) + 2
    # --- conversions -----------------------------------------------------------------------------
    body = []
    if spec.item_name("try_from"):
        body.append("            let x: %s = kani::any();" % r)
        body.append("            match %s::%s(x) { Some(v) => { assert!(rank_of(x).is_some()); assert!(v as %s == x); } None => assert!(rank_of(x).is_none()) }" % (En, spec.item_name("try_from"), r))
    if "TryFrom" in cfg:
        body.append("            let y: %s = kani::any();" % r)
        body.append("            match <%s as TryFrom<%s>>::try_from(y) { Ok(v) => { assert!(rank_of(y).is_some()); assert!(v as %s == y); } Err(()) => assert!(rank_of(y).is_none()) }" % (En, r, r))
    if spec.item_name("into"):
        body.append("            let i = any_idx(); assert!(VARS[i].%s() == DISC[i]);" % spec.item_name("into"))
    if body:
        w("        #[kani::proof] #[kani::unwind(%d)]" % unwind)
        w("        fn conv() {")
        L.extend(body)
        w("        }")
    # --- order -------------------------------------------------------------------------------------
    body = []
    if spec.item_name("next"):
        body.append("            let i = any_idx(); match VARS[i].%s() { Some(y) => { assert!(i + 1 < N); assert!(y as %s == DISC[i + 1]); } None => assert!(i + 1 == N) }" % (spec.item_name("next"), r))
    if spec.item_name("next_back"):
        body.append("            let j = any_idx(); match VARS[j].%s() { Some(y) => { assert!(j > 0); assert!(y as %s == DISC[j - 1]); } None => assert!(j == 0) }" % (spec.item_name("next_back"), r))
    if spec.item_name("MIN"):
        body.append("            assert!(%s::%s as %s == DISC[0]);" % (En, spec.item_name("MIN"), r))
    if spec.item_name("MAX"):
        body.append("            assert!(%s::%s as %s == DISC[N - 1]);" % (En, spec.item_name("MAX"), r))
    if body:
        w("        #[kani::proof] #[kani::unwind(%d)]" % unwind)
        w("        fn order() {")
        L.extend(body)
        w("        }")
    # --- strings (length only: comparing contents would add memcmp loops) -----------------------------
    if spec.item_name("as_str"):
        w("        #[kani::proof] #[kani::unwind(%d)]" % unwind)
        w("        fn names() { let i = any_idx(); let s: &'static str = VARS[i].%s(); assert!(s.len() == NAMELEN[i]); }" % spec.item_name("as_str"))
    # --- iterators: any 3-step history of iter(), any pair for range ----------------------------------
    if spec.item_name("iter"):
        w("        #[kani::proof] #[kani::unwind(%d)]" % unwind)
        w("        fn iter_history() {")
        w("            let mut it = %s::%s();" % (En, spec.item_name("iter")))
        w("            let (mut lo, mut hi) = (0usize, N);")
        w("            let mut k = 0; while k < 3 { k += 1;")
        w("                assert!(it.len() == hi - lo);")
        w("                if kani::any() { match it.next() { Some(v) => { assert!(lo < hi); assert!(v as %s == DISC[lo]); lo += 1; } None => assert!(lo == hi) } }" % r)
        w("                else { match it.next_back() { Some(v) => { assert!(lo < hi); assert!(v as %s == DISC[hi - 1]); hi -= 1; } None => assert!(lo == hi) } }" % r)
        w("            }")
        w("        }")
    if spec.item_name("range") and spec.item_name("iter"):
        w("        #[kani::proof] #[kani::unwind(%d)]" % unwind)
        w("        fn range_pair() {")
        w("            let (a, b) = (any_idx(), any_idx());")
        w("            let mut it = %s::%s(VARS[a], VARS[b]);" % (En, spec.item_name("range")))
        w("            let want = if a <= b { b - a + 1 } else { 0 };")
        w("            assert!(it.len() == want);")
        w("            match it.next() { Some(v) => { assert!(want > 0); assert!(v as %s == DISC[a]); } None => assert!(want == 0) }" % r)
        w("            match it.next_back() { Some(v) => { assert!(want > 1); assert!(v as %s == DISC[b]); } None => assert!(want <= 1) }" % r)
        w("        }")
    w("    }")
    return "\n".join(L)


def std_assumption_harnesses(tier="quick"):
    """the one std contract the range-mode `len()` relies on (DESIGN §4 C06 (c)): for a RangeInclusive of
    every integer type, mapped, after up to two leading next/next_back calls, `size_hint()` is exactly
    the number of remaining items — checked on the real core types for all start <= end with at most
    65534 items"""
    L = ["#[cfg(kani)]", "mod std_assume {"]
    for r in REPRS:
        L.append("    #[kani::proof]")
        L.append("    fn size_hint_%s() {" % r)
        L.append("        let a: %s = kani::any(); let b: %s = kani::any();" % (r, r))
        L.append("        kani::assume(a <= b && (b as i128).wrapping_sub(a as i128) <= 65533 && (b as i128).wrapping_sub(a as i128) >= 0);")
        L.append("        let f: fn(%s) -> %s = |x| x;" % (r, r))
        L.append("        let mut it = (a..=b).map(f);")
        L.append("        let mut rem: u64 = ((b as i128).wrapping_sub(a as i128) + 1) as u64;")
        L.append("        if kani::any() { if it.next().is_some() { rem -= 1; } }")
        L.append("        if kani::any() { if it.next_back().is_some() { rem -= 1; } }")
        L.append("        let sh = it.size_hint();")
        L.append("        assert!(sh.0 as u64 == rem);")
        L.append("        assert!(sh.1 == Some(rem as usize));")
        L.append("    }")
    if tier == "quick":
        L.append("}")
        return "\n".join(L)
    # (thorough tier only: these do not depend on /repo and take minutes)
    # the textbook double-ended / exact-size contracts assumed for the std iterators in `inner`
    # (contracts/shims.rs.tmpl), checked on the real core types for small sources: every slice of
    # length <= 4 (symbolic contents), every u8/i8 inclusive range of at most 6 items, every array of length 3; any 3-step
    # history of next / next_back / nth(m) / nth_back(m) with len and size_hint after every step, then last()
    HIST = """
        let (mut lo, mut hi) = (0usize, n);
        let mut k = 0;
        while k < 3 {
            k += 1;
            assert!(it.len() == hi - lo);
            assert!(it.size_hint() == (hi - lo, Some(hi - lo)));
            let m: usize = kani::any();
            kani::assume(m <= 5);
            match kani::any::<u8>() % 4 {
                0 => match it.next() { Some(v) => { assert!(lo < hi); assert!(v == at(lo)); lo += 1; } None => assert!(lo == hi) },
                1 => match it.next_back() { Some(v) => { assert!(lo < hi); assert!(v == at(hi - 1)); hi -= 1; } None => assert!(lo == hi) },
                2 => { let r = it.nth(m); if m < hi - lo { assert!(r == Some(at(lo + m))); lo += m + 1; } else { assert!(r.is_none()); lo = hi; } }
                _ => { let r = it.nth_back(m); if m < hi - lo { assert!(r == Some(at(hi - 1 - m))); hi -= m + 1; } else { assert!(r.is_none()); hi = lo; } }
            }
        }
        let l = it.last();
        if lo < hi { assert!(l == Some(at(hi - 1))); } else { assert!(l.is_none()); }
"""
    L.append("    #[kani::proof] #[kani::unwind(8)]")
    L.append("    fn contract_copied_slice_iter() {")
    L.append("        let arr: [u8; 4] = kani::any(); let n: usize = kani::any(); kani::assume(n <= 4);")
    L.append("        let s: &[u8] = &arr[..n];")
    L.append("        let mut it = s.iter().copied();")
    L.append("        let at = |i: usize| arr[i];")
    L.append(HIST)
    L.append("    }")
    for r in ("u8", "i8"):
        L.append("    #[kani::proof] #[kani::unwind(10)]")
        L.append("    fn contract_map_range_inclusive_%s() {" % r)
        L.append("        let a: %s = kani::any(); let b: %s = kani::any();" % (r, r))
        L.append("        let n: usize = if a <= b { (b as i32 - a as i32) as usize + 1 } else { 0 };")
        L.append("        kani::assume(n <= 6);   // `last()` folds over the remaining items: bounded to ranges of at most 6 items")
        L.append("        let f: fn(%s) -> i32 = |x| x as i32 * 3;" % r)
        L.append("        let mut it = (a..=b).map(f);")
        L.append("        let at = |i: usize| (a as i32 + i as i32) * 3;")
        L.append(HIST.replace("assert!(it.len() == hi - lo);", ""))
        L.append("    }")
    L.append("    #[kani::proof] #[kani::unwind(8)]")
    L.append("    fn contract_array_into_iter() {")
    L.append("        let arr: [u8; 3] = kani::any(); let n: usize = 3;")
    L.append("        let mut it = arr.into_iter();")
    L.append("        let at = |i: usize| arr[i];")
    L.append(HIST)
    L.append("    }")
    L.append("}")
    return "\n".join(L)


def run_layer_k(scratch, tier="quick", jobs=8):
    specs = k_specs(tier)
    target = os.path.join(scratch, "target")
    path, live, rejected = expand.expand_isolating(scratch, specs, name="k_x", target=target)
    ext = expand.vx_extract(path)
    mods = {m["mod"]: m for m in ext["mods"]}
    d = os.path.join(scratch, "kcrate")
    parts = ["#![allow(dead_code, unused_imports, non_camel_case_types, unreachable_patterns, unused_unsafe, unused_comparisons, unused_mut)]"]
    for s in live:
        t = s.render().rstrip()[:-1]
        parts.append(t + gen_harness(s, mods[s.mod]) + "\n}\n")
    parts.append(std_assumption_harnesses(tier))
    parts.append("fn main() {}\n")
    expand.write_crate(d, "kcrate", "\n".join(parts))
    os.makedirs(os.path.join(d, ".cargo"), exist_ok=True)
    with open(os.path.join(d, ".cargo", "config.toml"), "w") as f:
        f.write("[net]\noffline = true\n")
    rc, out, err, dt = run(["cargo", "kani", "--output-format", "terse", "-j", str(jobs)], cwd=d,
                           env={"CARGO_TARGET_DIR": os.path.join(scratch, "kani-target")}, timeout=7200)
    res = {"wall_s": dt, "harnesses": {}, "error": None, "rejected": rejected, "specs": {s.mod: s.describe() for s in specs}}
    # per-harness verdicts (output of parallel runs is tagged "Thread N:")
    cur = {}
    chunks = re.split(r"(?m)^(?=Thread \d+: )", out)
    if len(chunks) <= 1:
        chunks = re.split(r"(?=Checking harness )", out)
    for b in chunks:
        m = re.match(r"(?:Thread (\d+): )?Checking harness ([\w:]+)", b)
        th = None
        if m:
            th = m.group(1) or "0"
            cur[th] = m.group(2)
            res["harnesses"].setdefault(m.group(2), {"status": "undecided", "failed_checks": [], "tail": ""})
            if "VERIFICATION:-" not in b:
                continue
        else:
            m2 = re.match(r"Thread (\d+): ", b)
            th = m2.group(1) if m2 else "0"
        name = cur.get(th)
        if name is None or "VERIFICATION:-" not in b:
            continue
        ok = "VERIFICATION:- SUCCESSFUL" in b
        failed = "VERIFICATION:- FAILED" in b
        fails = re.findall(r"Failed Checks: ([^\n]*)\n\s*File: \"([^\"]*)\", line (\d+)", b)
        res["harnesses"][name] = {"status": "ok" if ok else ("failed" if failed else "undecided"),
                                  "failed_checks": ["%s (%s:%s)" % f for f in fails][:6], "tail": "" if ok else b[-1500:]}
    if not res["harnesses"]:
        res["error"] = "kani produced no harness results:\n" + out[-1500:] + "\n" + err[-2500:]
    m = re.search(r"Complete - (\d+) successfully verified harnesses, (\d+) failures, (\d+) total", out)
    res["summary"] = m.group(0) if m else ""
    return res
