"""Parser for contracts/overlay.vspec — the annotation overlay of layer T (DESIGN §3.1).

Format
    ### <key> [tag tag …]        key = function key as printed by vx (e.g. E::try_from,
                                 TryFrom[E]::try_from) or  item:<name>  for a proof item
    <section>[ <arg>]: [inline text]
        indented continuation lines

Sections: property, ret, name, place, spec, entry, loop N (arg ghost=<ident>), loophead N,
closure_params N, closure_ret N, closure_spec N, before_return N, after_stmt, before_stmt
(first content line `@ <anchor>`), text (for item: entries), needs (function keys an item needs).
The overlay only ever adds annotations; it cannot change a code token.
"""
import os
import re
from .common import VERIF

HDR = re.compile(r"^### +(\S+)\s*(?:\[([^\]]*)\])?\s*$")
SEC = re.compile(r"^([a-z_]+)(?: +([^:]*?))?:\s?(.*)$")


class Entry:
    def __init__(self, key, tags):
        self.key = key
        self.tags = set(tags)
        self.sections = []   # (name, arg, text)
        self.line = 0

    def get(self, name, default=None):
        for n, a, t in self.sections:
            if n == name:
                return t
        return default

    def properties(self):
        return (self.get("property") or "").split()

    def to_vx(self):
        o = {}
        loops, closures, before_return, after_stmt, before_stmt = {}, {}, {}, [], []
        for n, a, t in self.sections:
            t = t.strip()
            if n in ("ret", "name", "spec", "entry"):
                o[n] = t
            elif n == "loop":
                parts = (a or "").split()
                d = loops.setdefault(parts[0], {})
                d["spec"] = t
                for p in parts[1:]:
                    if p.startswith("ghost="):
                        d["ghost"] = p[6:]
            elif n == "loophead":
                loops.setdefault(a.strip(), {})["head"] = t
            elif n == "closure_params":
                closures.setdefault(a.strip(), {})["params"] = t
            elif n == "closure_ret":
                closures.setdefault(a.strip(), {})["ret"] = t
            elif n == "closure_spec":
                closures.setdefault(a.strip(), {})["spec"] = t
            elif n == "before_return":
                before_return[a.strip()] = t
            elif n in ("after_stmt", "before_stmt"):
                lines = t.split("\n")
                m = re.match(r"^@(\d*) (.*)$", lines[0])
                assert m, "anchor line expected in %s of %s" % (n, self.key)
                d = {"anchor": m.group(2).strip(), "text": "\n".join(lines[1:])}
                if m.group(1):
                    d["occurrence"] = int(m.group(1))
                (after_stmt if n == "after_stmt" else before_stmt).append(d)
        if loops:
            o["loops"] = loops
        if closures:
            o["closures"] = closures
        if before_return:
            o["before_return"] = before_return
        if after_stmt:
            o["after_stmt"] = after_stmt
        if before_stmt:
            o["before_stmt"] = before_stmt
        return o


def parse(path=None):
    path = path or os.path.join(VERIF, "contracts", "overlay.vspec")
    entries = []
    cur = None
    sec = None
    with open(path) as f:
        for ln, line in enumerate(f, 1):
            line = line.rstrip("\n")
            if line.startswith("//") or line.startswith("#!"):
                continue
            m = HDR.match(line)
            if m:
                cur = Entry(m.group(1), (m.group(2) or "").split())
                cur.line = ln
                entries.append(cur)
                sec = None
                continue
            if cur is None:
                continue
            if line and not line[0].isspace():
                m = SEC.match(line)
                if not m:
                    raise ValueError("%s:%d: cannot parse section header %r" % (path, ln, line))
                sec = [m.group(1), m.group(2), m.group(3)]
                cur.sections.append(sec)
                continue
            if sec is not None:
                sec[2] += "\n" + line.strip()
    return entries


def select(entries, key, tags):
    """most specific entry for `key` whose tags are all in `tags`"""
    best = None
    for e in entries:
        if e.key == key and e.tags <= tags:
            if best is None or len(e.tags) > len(best.tags):
                best = e
    return best


def items_for(entries, tags):
    return [e for e in entries if e.key.startswith("item:") and e.tags <= tags]
