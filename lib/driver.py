"""Check driver: collects the obligations of one property from the layers, compares them with the
committed baseline, decides (exit 0 / 1 / 2 — DESIGN §5), writes evidence and replay files."""
import json
import os
import re
import shutil
import sys
import time
from . import artifacts, layer_i, layer_t, corpus, expand
from .common import VERIF, REPO, Undecided, log, run, Scratch

BASELINE_PATH = os.path.join(VERIF, "contracts", "baseline_obligations.json")
BODIES_PATH = os.path.join(VERIF, "contracts", "baseline_bodies.json")
KNOWN_PATH = os.path.join(VERIF, "known_findings.json")
EVIDENCE_DIR = os.path.join(VERIF, "evidence")
REPLAY_DIR = os.path.join(VERIF, "replay")


class Ob:
    """one obligation: id, status in {ok, failed, undecided}, backend, detail"""

    def __init__(self, oid, status, backend, detail="", time_ms=0, sample=None, replay=None, kinds=None, body_hash=None):
        self.kinds = kinds or []
        self.body_hash = body_hash
        self.id = oid
        self.status = status
        self.backend = backend
        self.detail = detail
        self.time_ms = time_ms
        self.sample = sample
        self.replay = replay     # dict describing how to replay on the real code (layer I)

    def as_dict(self):
        return {"id": self.id, "status": self.status, "backend": self.backend, "detail": self.detail[:2000], "time_ms": self.time_ms}


# ---------------------------------------------------------------------------------------------
# collectors
# ---------------------------------------------------------------------------------------------
def collect_T(pid, tier, pids=None):
    pids = set(pids or [pid])
    r = artifacts.get_t(tier)
    obs = []
    meta = {"functions_under_contract": set(), "assumption_scan": {}, "smt_ms": 0, "modules": 0, "not_under_contract": set(),
            "cache_hit": r.get("cache_hit"), "rules": {}, "layer_wall_s": r.get("wall_s", 0)}
    for u in r.get("undecided", []):
        obs.append(Ob("T/pipeline", "undecided", "verus", u))
    for modname, m in sorted(r["modules"].items()):
        prefix = "T32" if modname.startswith("p32:") else "T"
        base = "%s/%s/%s" % (prefix, m["repr"], m["cell"])
        if "error" in m:
            obs.append(Ob(base + "/*", "undecided", "verus", m["error"]))
            continue
        relevant = {k: v for k, v in m["functions"].items() if pids & set(v["properties"])}
        if not relevant:
            continue
        meta["modules"] += 1
        meta["smt_ms"] += (m.get("extra", {}).get("smt_ms") or 0)
        for k, v in m.get("assumptions", {}).items():
            meta["assumption_scan"][k] = max(meta["assumption_scan"].get(k, 0), v)
        mod_problem = None
        if m.get("extra", {}).get("unattributed"):
            mod_problem = "a refutation outside the functions under contract (prelude lemma / shim body): " + m["extra"]["unattributed"][0][:600]
        elif not m.get("canary_failed_as_expected"):
            mod_problem = "vacuity canary did not fail: the assumptions of this file may be contradictory"
        for k, v in relevant.items():
            meta["functions_under_contract"].add(k)
            for rr, c in (v.get("rules") or {}).items():
                meta["rules"][rr] = meta["rules"].get(rr, 0) + c
            st = {"verified": "ok", "failed": "failed", "undecided": "undecided"}[v["status"]]
            detail = v.get("reason", "")
            probs = [p for p in m.get("problems", []) if p.startswith(k + ":")]
            if probs and st == "ok":
                st, detail = "undecided", "; ".join(probs)
            elif probs:
                detail = "; ".join(probs) + "\n" + detail
            if mod_problem and st == "ok":
                st, detail = "undecided", mod_problem
            obs.append(Ob("%s/%s" % (base, k), st, "verus+z3", detail, v.get("time_ms", 0),
                          sample={"function": k, "repr": m["repr"], "cell": m["cell"], "queries": v.get("queries"), "code": v.get("raw", "")[:160]},
                          kinds=v.get("kinds"), body_hash=m.get("canon_hashes", {}).get(k)))
        for k in m.get("not_under_contract", []):
            meta["not_under_contract"].add(k)
    return obs, meta


def collect_S_forwarding(pid, tier):
    """structural obligation: wrapper methods outside Verus (fold/rfold) forward verbatim to `inner`"""
    r = artifacts.get_t(tier)
    obs = []
    for modname, m in sorted(r["modules"].items()):
        if modname.startswith("p32:"):
            continue
        for k, v in sorted(m.get("forwarding", {}).items()):
            is_names = "[ENames]" in k
            if (pid == "C08") != is_names:
                continue
            obs.append(Ob("S/fwd/%s/%s/%s" % (m["repr"], m["cell"], k), "ok" if v["ok"] else "undecided", "vx-structural",
                          "" if v["ok"] else "this wrapper method is outside the verified subset and is not the verbatim forward the structural check knows: body is %s, expected %s" % (v["got"], v["want"]),
                          sample={"function": k, "repr": m["repr"], "cell": m["cell"], "expected_body": v["want"]}))
        for k in sorted(m.get("uncontracted_iter_methods", [])):
            is_names = "[ENames]" in k
            if (pid == "C08") != is_names:
                continue
            obs.append(Ob("S/uncontracted/%s/%s/%s" % (m["repr"], m["cell"], k), "undecided", "vx-structural",
                          "the expansion contains an iterator method that has no contract in contracts/overlay.vspec; it is not verified"))
    return obs, {"forwarding_checked": len(obs)}


def collect_unsafe_coverage(tier, seed):
    """C02 guard (d): every function of every corpus expansion that contains an unsafe block must be
    token-identical (after R1-R9 canonicalisation) to a body verified in layer T for that repr"""
    t = artifacts.get_t(tier)
    i = artifacts.get_i(tier, seed)
    verified = set()
    for modname, m in t["modules"].items():
        for k, h in m.get("canon_hashes", {}).items():
            if m["functions"].get(k, {}).get("status") == "verified":
                verified.add(h)
    obs = []
    sites = 0
    for modname, lst in sorted(i.get("unsafe_fns", {}).items()):
        bad = [x for x in lst if x[1] not in verified]
        sites += sum(x[2] for x in lst)
        if bad:
            obs.append(Ob("U/%s" % modname, "undecided", "vx-structural",
                          "functions with unsafe blocks whose body is not one of the bodies verified in layer T: %s" % ", ".join(x[0] for x in bad)))
        else:
            obs.append(Ob("U/%s" % modname, "ok", "vx-structural", sample={"module": modname, "unsafe_functions": [x[0] for x in lst]}))
    return obs, {"unsafe_blocks_in_corpus_expansions": sites, "modules": len(obs)}


R_PREFIX = {
    "C13": ("R:legal:",),
    "C10": ("R:closure:", "R:legal:", "R:keep:", "R:complete:"),
    "C09": ("R:keep:", "R:keepmode:", "R:auto:", "R:mode:"),
    "C06": ("R:auto:iter", "R:mode:", "R:keepmode:iter"),
    "C07": ("R:mode:range", "R:closure:range"),
}


def _r_failed(desc, r, seed):
    """a refuted assertion of layer R, with Kani's counterexample configuration replayed natively"""
    from . import layer_r
    detail = "Kani refutes %s on the real Features::resolve over the symbolic configuration space" % desc
    cfg = (r.get("counterexamples") or {}).get(desc)
    replay = None
    if cfg:
        detail += "\ncounterexample configuration (Kani concrete playback): %s" % json.dumps(cfg)
        try:
            name = "rcex_" + re.sub(r"[^0-9A-Za-z]", "_", desc)[-40:].lower()
            spec = layer_r.spec_from_config(cfg, name)
            with Scratch("vf-rcex-") as sc:
                ri = layer_i.run_instances(sc, [spec], seed, "quick")
            why = None
            if ri.get("rejected", {}).get(name):
                why = "does not compile: " + ri["rejected"][name][:600]
            elif ri.get("modules", {}).get(name, {}).get("fails"):
                f0 = ri["modules"][name]["fails"][0]
                why = "%s %s: %s" % (f0["prop"], f0["check"], f0["detail"])
            if why:
                detail += "\nreplayed on the real macro: " + why
                replay = {"mod": name, "decl": spec.render(), "fail": {"prop": "R", "check": desc, "detail": why}, "seed": seed, "tier": "quick",
                          "spec": {"repr": spec.repr, "discs": spec.discs(), "features": spec.features}}
            else:
                detail += "\nthe configuration compiles and passes the oracle natively (the refuted clause is not observable on this enum)"
        except Exception as e:  # replay is best effort
            detail += "\n(replay of the counterexample failed: %s)" % e
    return Ob("R/" + desc, "failed", "kani+cbmc", detail, replay=replay)


def collect_R(pid, tier, seed_for_replay=1):
    r = artifacts.get_r(tier)
    obs = []
    meta = {"cache_hit": r.get("cache_hit"), "layer_wall_s": r.get("wall_s", 0), "kani_summary": r.get("kani_summary"),
            "configurations": "all 2^17 feature subsets x all mode values x both shapes x variant counts 1..65534 x 5 repr sizes (symbolic, loop-free)",
            "uses_cells": len(r.get("uses", {}))}
    if r.get("error"):
        obs.append(Ob("R/harness", "undecided", "kani+cbmc", r["error"]))
        return obs, meta
    pre = R_PREFIX.get(pid, ())
    seen = set()
    for kind, desc in r.get("expected", []):
        if kind == "assert" and desc.startswith(pre):
            seen.add(desc)
            st = r["checks"].get(desc)
            if st == "SUCCESS":
                obs.append(Ob("R/" + desc, "ok", "kani+cbmc", sample={"assertion": desc}))
            elif st == "FAILURE":
                obs.append(_r_failed(desc, r, seed_for_replay))
            else:
                obs.append(Ob("R/" + desc, "undecided", "kani+cbmc", "assertion missing from Kani output (status %s)" % st))
    for desc, st in sorted(r["checks"].items()):
        if desc.startswith(pre) and desc not in seen:
            if st == "SUCCESS":
                obs.append(Ob("R/" + desc, "ok", "kani+cbmc", sample={"assertion": desc}))
            elif st == "FAILURE":
                obs.append(_r_failed(desc, r, seed_for_replay))
            else:
                obs.append(Ob("R/" + desc, "undecided", "kani+cbmc", "status %s" % st))
    if pid == "C10":
        # vacuity: every cell condition must be reachable at the end of resolve
        for desc, st in sorted(r["covers"].items()):
            if st != "SATISFIED":
                obs.append(Ob("R/" + desc, "undecided", "kani+cbmc", "cover not satisfied (%s): the cell's closure assertions would be vacuous" % st))
            else:
                obs.append(Ob("R/" + desc, "ok", "kani+cbmc"))
        for f in r.get("other_failures", []):
            obs.append(Ob("R/kani-builtin/%s" % f[0], "failed", "kani+cbmc", "%s at %s" % (f[1], f[2])))
    return obs, meta


G_FUNCS = {
    "C01": ["g_parse_runs"], "C05": ["g_parse_runs"], "C03": ["g_range_table"], "C07": ["g_range_table"],
    "C17": ["lemma_canonical_order", "sort_site"], "C18": ["lemma_canonical_order", "sort_site"],
    "C11": ["g_disc_init", "g_disc_step", "lemma_disc_sequence", "disc_threading"],
}
G_DISC = ("g_disc_init", "g_disc_step", "lemma_disc_sequence", "disc_threading")


def collect_G(pid, tier):
    r = artifacts.get_g(tier)
    obs = []
    meta = {"cache_hit": r.get("cache_hit"), "layer_wall_s": r.get("wall_s", 0), "slices": r.get("slices"), "quote_templates": r.get("templates"),
            "assumption_scan": r.get("assumptions")}
    names = G_FUNCS.get(pid, [])
    disc = r.get("disc") or {}
    if any(n in G_DISC for n in names):
        # second file of layer G (discriminant evaluation of parse_values): own verdicts
        meta["disc_slices"] = disc.get("slices")
        meta["disc_assumption_scan"] = disc.get("assumptions")
        meta["disc_threading"] = disc.get("threading")
        meta["layer_wall_s"] = (meta.get("layer_wall_s") or 0) + (disc.get("wall_s") or 0)
        if disc.get("problems") or disc.get("error") or not disc.get("functions"):
            obs.append(Ob("G/disc-slices", "undecided", "verus+z3", "; ".join(disc.get("problems", [])) + (disc.get("error") or "")))
        else:
            dcan = disc["functions"].get("__vx_canary_disc", {})
            for name in names:
                if name not in G_DISC:
                    continue
                if name == "disc_threading":
                    th = disc.get("threading") or {}
                    obs.append(Ob("G/disc_threading", "ok" if th.get("ok") else "undecided", "vx-structural", "; ".join(th.get("problems", [])),
                                  sample={"what": th.get("what")}))
                    continue
                f = disc["functions"].get(name)
                if f is None:
                    obs.append(Ob("G/" + name, "undecided", "verus+z3", "function missing from the verus result"))
                    continue
                st = {"verified": "ok", "failed": "failed", "undecided": "undecided"}[f["status"]]
                if st == "ok" and dcan.get("status") != "failed":
                    st = "undecided"
                obs.append(Ob("G/" + name, st, "verus+z3", f.get("reason", ""), f.get("time_ms", 0),
                              sample={"function": name, "slice_of": "/repo/src/parser/values.rs (verbatim)"}, kinds=f.get("kinds"), body_hash=f.get("body_hash")))
        names = [n for n in names if n not in G_DISC]
        if not names:
            return obs, meta
    if r.get("problems") or r.get("error"):
        obs.append(Ob("G/slices", "undecided", "verus+z3", "; ".join(r.get("problems", [])) + (r.get("error") or "")))
        return obs, meta
    canary = r["functions"].get("__vx_canary", {})
    for name in names:
        if name == "sort_site":
            ok = r.get("sort_site_ok") and r.get("hashmap_insert_checked")
            obs.append(Ob("G/sort_site", "ok" if ok else "undecided", "vx-structural",
                          "" if ok else "the collect + sort_by_key(|v| v.0) statements of parse_values were not found verbatim",
                          sample={"statements": ["values.iter().map(|(k, v)| (*k, v.clone())).collect::<Vec<_>>()", "values.sort_by_key(|v| v.0)"]}))
            continue
        f = r["functions"].get(name)
        if f is None:
            obs.append(Ob("G/" + name, "undecided", "verus+z3", "function missing from the verus result"))
            continue
        st = {"verified": "ok", "failed": "failed", "undecided": "undecided"}[f["status"]]
        if st == "ok" and canary.get("status") != "failed":
            st = "undecided"
        obs.append(Ob("G/" + name, st, "verus+z3", f.get("reason", ""), f.get("time_ms", 0), sample={"function": name, "slice_of": "/repo/src (verbatim)"},
                      kinds=f.get("kinds"), body_hash=f.get("body_hash")))
    return obs, meta


def collect_S(pid, tier, seed):
    r = artifacts.get_s(tier, seed)
    obs = []
    meta = {"cache_hit": r.get("cache_hit"), "layer_wall_s": r.get("wall_s", 0)}
    inst = r.get("instances") or {}
    if inst.get("build_error"):
        obs.append(Ob("S/catalogue-build", "undecided", "rustc", inst["build_error"][-3000:]))
        return obs, meta
    for c in r["checks"].get(pid, []):
        if c["ok"]:
            st = "ok"
        elif c.get("undecided_if_bad"):
            st = "undecided"
        else:
            st = "failed"
        modname = c["id"].split("/")[-1]
        rp = None
        if modname in inst.get("decls", {}):
            rp = {"mod": modname, "decl": inst["decls"][modname], "fail": {"prop": pid, "check": c["id"], "detail": c.get("detail", "")}, "seed": seed, "tier": tier}
        obs.append(Ob(c["id"], st, "vx-structural+rustc", c.get("detail", ""), sample=c.get("sample"), replay=rp))
    if pid == "C10":
        b = r.get("base_rejected") or {}
        meta["base_cases"] = b.get("n")
        if b.get("error"):
            obs.append(Ob("S/base-cases", "undecided", "rustc", b["error"][-2000:]))
        for modname, why in sorted((b.get("rejected") or {}).items()):
            obs.append(Ob("S/base/%s" % modname, "failed", "rustc", "single-feature cell does not type-check with its automatically enabled helpers: " + why[:800]))
        if not b.get("error") and not b.get("rejected"):
            obs.append(Ob("S/base-cases", "ok", "rustc", sample={"cells": b.get("n"), "what": "every feature x mode x shape x 12 reprs derives and type-checks with Copy as the only bound"}))
        meta["documented_catalogue"] = r.get("doc")
    if pid == "C17":
        d = r.get("determinism") or {}
        meta["fresh_process_expansions"] = d
        if d:
            obs.append(Ob("S/determinism-witness", "ok" if d.get("identical") else "failed", "rustc",
                          "" if d.get("identical") else "expansions of the same crate differ between fresh compiler processes",
                          sample={"runs": d.get("runs"), "modules": d.get("modules"), "bounded": True}))
    return obs, meta


K_HARNESS = {"conv": ["C01", "C02"], "order": ["C05", "C02"], "names": ["C03", "C02"], "iter_history": ["C06", "C02"], "range_pair": ["C07", "C02"],
             "std_size_hint": ["C06", "C07"], "std_contract": ["C06", "C07", "C08"]}


def collect_K(pid, tier):
    r = artifacts.get_k(tier)
    obs = []
    meta = {"cache_hit": r.get("cache_hit"), "layer_wall_s": r.get("wall_s", 0), "kani_summary": r.get("summary"),
            "domain": "per enum: every value of the repr (try_from), every variant, every ordered pair (range), every 3-step next/next_back history; loops fully unwound with unwinding assertions"}
    if r.get("error"):
        obs.append(Ob("K/harness", "undecided", "kani+cbmc", r["error"][-2500:]))
        return obs, meta
    for name, v in sorted(r["harnesses"].items()):
        parts = name.split("::")
        kind = parts[-1]
        if kind.startswith("size_hint_"):
            kind = "std_size_hint"
        if kind.startswith("contract_"):
            kind = "std_contract"
        if pid not in K_HARNESS.get(kind, []):
            continue
        modname = parts[0]
        if v["status"] == "ok":
            obs.append(Ob("K/" + name, "ok", "kani+cbmc", sample={"harness": name, "enum": r.get("specs", {}).get(modname)}))
        elif v["status"] == "failed":
            unwind_only = v["failed_checks"] and all("unwinding assertion" in f for f in v["failed_checks"])
            obs.append(Ob("K/" + name, "undecided" if unwind_only else "failed", "kani+cbmc",
                          "Kani: " + "; ".join(v["failed_checks"]) + "\n" + v.get("tail", "")[-800:], sample={"enum": r.get("specs", {}).get(modname)}))
        else:
            obs.append(Ob("K/" + name, "undecided", "kani+cbmc", v.get("tail", "")[-800:]))
    for modname, why in sorted((r.get("rejected") or {}).items()):
        obs.append(Ob("K/compile/%s" % modname, "undecided", "rustc", why[:600]))
    return obs, meta


def collect_N(pid, tier, seed):
    r = artifacts.get_n(pid, tier)
    obs = []
    meta = {"cache_hit": r.get("cache_hit"), "layer_wall_s": r.get("wall_s", 0), "instances": 0, "evaluations": 0, "samples": [],
            "bound": "finite designed catalogue of declarations, each with the verdict the property demands; decided by the real macro + rustc (cargo check)"}
    if r.get("error"):
        obs.append(Ob("N/build", "undecided", "rustc", r["error"][-2500:]))
        return obs, meta
    for modname, v in sorted(r["modules"].items()):
        meta["instances"] += 1
        meta["evaluations"] += 1
        desc = {"decl": v["decl"], "must_be_rejected": v["must_be_rejected"], "why": v["why"], "rejected": v["rejected"]}
        if len(meta["samples"]) < 4:
            meta["samples"].append(desc)
        rp = {"mod": modname, "decl": v["decl"], "fail": {"prop": pid, "check": "accept/reject", "detail": v["why"]}, "seed": seed, "tier": tier, "negative": pid}
        if v["rejected"] == v["must_be_rejected"]:
            obs.append(Ob("N/" + modname, "ok", "rustc", sample=desc))
        elif v["must_be_rejected"]:
            obs.append(Ob("N/" + modname, "failed", "rustc", "a declaration the property says must never compile is accepted (%s): %s" % (v["why"], v["decl"][-300:]), sample=desc, replay=rp))
        else:
            obs.append(Ob("N/" + modname, "failed", "rustc", "a declaration inside the accepted domain is rejected (%s): %s" % (v["why"], v["message"][:400]), sample=desc, replay=rp))
    return obs, meta


def _i_relevant(pid, prop):
    if prop == pid:
        return True
    if prop.startswith("EMIT:"):
        return pid in layer_i.EMIT_PROPS.get(prop[5:], [])
    return False


def collect_I(pid, tier, seed, include_rejected=False, source="I", props_filter=None, mod_prefix=None, reject_filter=None):
    if source == "I":
        r = artifacts.get_i(tier, seed)
    elif source == "C11":
        r = artifacts.get_c11(tier, seed)
    elif source == "M":
        r = artifacts.get_m(tier, seed)
        if r.get("error"):
            return [Ob("M/miri", "undecided", "miri", r["error"][:2000])], {"layer_wall_s": r.get("wall_s", 0)}
    else:
        r = artifacts.get_s(tier, seed)["instances"]
    obs = []
    known_mods = {s_.mod for s_ in artifacts.known_finding_specs()}
    meta = {"instances": 0, "evaluations": 0, "samples": [], "cache_hit": r.get("cache_hit"), "rejected": sorted(r.get("rejected", {})),
            "layer_wall_s": r.get("wall_s", 0)}
    if r.get("build_error"):
        obs.append(Ob("I/build", "undecided", "rustc", r["build_error"][-3000:]))
        return obs, meta
    if r.get("run_error"):
        obs.append(Ob("I/run", "undecided", "native", r["run_error"]))
    for modname, m in sorted(r["modules"].items()):
        if mod_prefix and not modname.startswith(tuple(mod_prefix)):
            continue
        if modname in r.get("rejected", {}):
            continue
        if props_filter == "any" and modname in known_mods:
            continue   # declarations kept only to exhibit a recorded finding of another property
        if not m.get("done"):
            obs.append(Ob("I/%s" % modname, "undecided", "native", "instance driver did not finish this module"))
            continue
        meta["instances"] += 1
        meta["evaluations"] += m["evals"]
        fails = [f for f in m["fails"] if (props_filter is None and _i_relevant(pid, f["prop"])) or (props_filter == "any")]
        desc = r.get("specs", {}).get(modname)
        if props_filter == "none":
            continue
        if fails:
            f = fails[0]
            obs.append(Ob("%s/%s" % ("M" if source == "M" else "I", modname), "failed", "miri" if source == "M" else "rustc+native", "%s %s: %s" % (f["prop"], f["check"], f["detail"]),
                          sample=desc, replay={"mod": modname, "decl": r.get("decls", {}).get(modname), "fail": f, "seed": seed, "tier": tier}))
        else:
            obs.append(Ob("%s/%s" % ("M" if source == "M" else "I", modname), "ok", "miri" if source == "M" else "rustc+native", sample=desc))
        if len(meta["samples"]) < 3 and desc:
            meta["samples"].append(desc)
    if include_rejected:
        for modname, why in sorted(r.get("rejected", {}).items()):
            if mod_prefix and not modname.startswith(tuple(mod_prefix)):
                continue
            if reject_filter and not re.search(reject_filter, why):
                continue
            obs.append(Ob("I/compile/%s" % modname, "failed", "rustc", "corpus enum in the documented domain does not compile:\n" + why,
                          sample=r.get("specs", {}).get(modname),
                          replay={"mod": modname, "decl": r.get("decls", {}).get(modname), "fail": {"prop": pid, "check": "compile", "detail": why}, "seed": seed, "tier": tier}))
    return obs, meta


# ---------------------------------------------------------------------------------------------
# baseline, known findings
# ---------------------------------------------------------------------------------------------
def load_baseline():
    if os.path.exists(BASELINE_PATH):
        with open(BASELINE_PATH) as f:
            return json.load(f)
    return {}


def load_bodies():
    if os.path.exists(BODIES_PATH):
        with open(BODIES_PATH) as f:
            return json.load(f)
    return {}


def load_known():
    if os.path.exists(KNOWN_PATH):
        with open(KNOWN_PATH) as f:
            return json.load(f)
    return {"findings": [], "fixed": []}


def known_match(pid, ob, known):
    for k in known.get("findings", []):
        if k.get("property") != pid:
            continue
        if re.search(k["obligation"], ob.id) and (not k.get("detail") or re.search(k["detail"], ob.detail, re.S)):
            return k
    return None


# ---------------------------------------------------------------------------------------------
# replay
# ---------------------------------------------------------------------------------------------
def write_replay(pid, n, ob, partner=None):
    """replay directory for a violation; `partner` is a layer-I obligation with a concrete input"""
    os.makedirs(REPLAY_DIR, exist_ok=True)
    d = os.path.join(REPLAY_DIR, "%s-%d" % (pid, n))
    shutil.rmtree(d, ignore_errors=True)
    os.makedirs(d)
    with open(os.path.join(d, "obligation.txt"), "w") as f:
        f.write("property: %s\nobligation: %s\nbackend: %s\nstatus: %s\n\n--- verifier output ---\n%s\n" % (pid, ob.id, ob.backend, ob.status, ob.detail))
    src = partner or ob
    info = {"property": pid, "obligation": ob.id, "backend": ob.backend, "failing_input_found": False}
    if src.replay and src.replay.get("decl"):
        rp = src.replay
        info["negative"] = rp.get("negative")
        if rp.get("spec"):
            info["spec"] = rp["spec"]
        info.update({"failing_input_found": True, "module": rp["mod"], "failing_check": rp["fail"], "seed": rp["seed"], "tier": rp["tier"],
                     "how": "./check %s --replay %s" % (pid, d)})
        with open(os.path.join(d, "decl.rs"), "w") as f:
            f.write(rp["decl"] + "\n")
    with open(os.path.join(d, "replay.json"), "w") as f:
        json.dump(info, f, indent=1)
    return d, info["failing_input_found"]


def do_replay(path):
    """re-run the failing instance of a replay directory against /repo's working tree"""
    with open(os.path.join(path, "replay.json")) as f:
        info = json.load(f)
    print(open(os.path.join(path, "obligation.txt")).read()[:3000])
    if not info.get("failing_input_found"):
        print("no concrete failing input was found for this obligation (no-failing-input-found); the verifier output above is the evidence")
        return 1
    seed, tier = info["seed"], info["tier"]
    if info.get("module", "").startswith("n1"):
        from . import layer_n
        pid_ = "C" + info["module"][1:3]
        specs = [s_ for s_ in {"C12": layer_n.c12_specs, "C13": layer_n.c13_specs, "C14": layer_n.c14_specs}[pid_](tier) if s_.mod == info["module"]]
        if not specs:
            print("cannot regenerate module %s" % info["module"])
            return 2
        with Scratch("vf-replay-") as sc:
            r = layer_n.run_negative(sc, specs)
        v = r["modules"][specs[0].mod]
        print("REPLAY %s: must_be_rejected=%s rejected=%s %s" % (specs[0].mod, v["must_be_rejected"], v["rejected"], v["message"][:300]))
        return 0 if v["rejected"] == v["must_be_rejected"] else 1
    if info.get("module", "").startswith("m_"):
        from . import layer_m
        with Scratch("vf-replay-") as sc:
            r = layer_m.run_layer_m(sc, tier, seed, only={info["module"]})
        if r.get("error"):
            print("REPLAY: miri run failed: " + r["error"][:1500])
            return 2
        bad = 0
        for m, e in r["modules"].items():
            for fl in e["fails"]:
                print("REPLAY FAIL (miri) %s %s %s: %s" % (m, fl["prop"], fl["check"], fl["detail"]))
                bad += 1
        if bad == 0:
            print("REPLAY: the instance passes under Miri on the current tree")
        return 1 if bad else 0
    # rebuild the corpus entry by module name from the generator (same seed/tier)
    specs = artifacts.quick_instance_corpus(seed) if tier == "quick" else corpus.instance_corpus("thorough", seed)
    specs = [s for s in specs if s.mod == info["module"]]
    if not specs and info.get("spec"):
        sp = info["spec"]
        specs = [corpus.EnumSpec(info["module"], sp["repr"], corpus.mk_variants(sp["discs"], implicit_ok=False), list(sp["features"]), ident="En")]
    if not specs:
        from . import layer_s
        specs = [s for s in layer_s.all_extra_specs(seed, tier) + corpus.c11_specs(tier, seed) if s.mod == info["module"]]
    if not specs:
        print("cannot regenerate module %s" % info["module"])
        return 2
    with Scratch("vf-replay-") as sc:
        r = layer_i.run_instances(sc, specs, seed, tier)
    if r.get("build_error"):
        print("REPLAY: build failed:\n" + r["build_error"][-2000:])
        return 1
    if r.get("rejected"):
        for k, v in r["rejected"].items():
            print("REPLAY: %s does not compile against /repo:\n%s" % (k, v))
        return 1
    bad = 0
    for m, e in r["modules"].items():
        for fl in e["fails"]:
            print("REPLAY FAIL %s %s %s: %s" % (m, fl["prop"], fl["check"], fl["detail"]))
            bad += 1
    if bad == 0:
        print("REPLAY: the instance passes on the current tree")
    return 1 if bad else 0


# ---------------------------------------------------------------------------------------------
# decide
# ---------------------------------------------------------------------------------------------
def decide(pid, obs, tier, record_baseline=False):
    baseline = load_baseline()
    known = load_known()
    base = set(baseline.get(pid, {}).get(tier, []))
    ids = {o.id for o in obs}
    violations, undecided, known_hits = [], [], []
    if record_baseline:
        return violations, undecided, known_hits
    bodies = load_bodies()
    for o in obs:
        if o.status == "failed" and o.body_hash and o.id.startswith(("T/", "T32/", "G/")) \
                and bodies.get(o.id.replace("T32/", "T/")) not in (None, o.body_hash):
            # The body of this function is not the one the annotations were written for.  A refutation by
            # the deductive verifier then has two possible causes — the code is wrong, or the proof no longer
            # fits (a behaviour-preserving rewrite may need a different invariant or lemma) — and the verifier
            # gives no counterexample that could tell them apart.  It is reported as undecided; a violation of
            # a rewritten function needs a concrete failing input from the layers that run the real code
            # (I native, K Kani, M Miri, R Kani) — those are reported by their own obligations.
            what = "only proof annotations fail" if (o.kinds and all(k == "scaffolding" for k in o.kinds)) else "a semantic obligation is refuted"
            undecided.append(Ob(o.id, "undecided", o.backend, "the body of this function changed and %s; without a counterexample layer T cannot tell a broken proof "
                                "from a broken property\n" % what + o.detail))
            continue
        if o.status == "failed":
            k = known_match(pid, o, known)
            if k:
                known_hits.append((k, o))
            elif o.id in base or o.id.startswith("I/") or o.id.startswith("M/") or o.id.startswith("K/") or o.id.startswith("S/") or o.id.startswith("R/") or o.id.startswith("G/"):
                violations.append(o)
            else:
                undecided.append(Ob(o.id, "undecided", o.backend, "obligation fails but is not in the baseline of obligations discharged on the unchanged tree; treated as a defect of the machinery until shown otherwise\n" + o.detail))
        elif o.status == "undecided":
            undecided.append(o)
    for b in sorted(base - ids):
        if b.startswith(("I/", "M/")):
            continue
        undecided.append(Ob(b, "undecided", "-", "baseline obligation was not generated on this tree (lost anchor / changed item set)"))
    return violations, undecided, known_hits


def finish(pid, tier, seed, level, obs, metas, violations, undecided, known_hits, t0, trusted, assumptions, explanation, checker_cmd):
    os.makedirs(EVIDENCE_DIR, exist_ok=True)
    n = 0
    lines = []
    # pair verifier refutations with a concrete failing instance where one exists
    inst_fail = [o for o in violations if o.replay and o.replay.get("decl")]
    for v in violations:
        n += 1
        partner = None
        if not (v.replay and v.replay.get("decl")) and inst_fail:
            partner = inst_fail[0]
        path, found = write_replay(pid, n, v, partner)
        lines.append("VIOLATION property=%s replay=%s%s" % (pid, path, "" if found else " no-failing-input-found"))
        if n >= 5:
            break
    for (k, o) in known_hits:
        print("KNOWN-FINDING: property=%s %s (%s)" % (pid, k.get("what", k.get("id", "")), o.id))
    # obligations that fail on a recorded known finding are reported separately, not counted
    known_ids = {o.id for (_k, o) in known_hits}
    obs = [o for o in obs if o.id not in known_ids]
    discharged = sum(1 for o in obs if o.status == "ok")
    by_backend = {}
    for o in obs:
        by_backend.setdefault(o.backend, [0, 0])
        by_backend[o.backend][0] += 1
        by_backend[o.backend][1] += 1 if o.status == "ok" else 0
    samples = [o.sample for o in obs if o.sample][:6] or [o.as_dict() for o in obs[:3]]
    cov = {
        "obligations": len(obs),
        "discharged": discharged,
        "checker_cmd": checker_cmd,
        "trusted_base": trusted,
        "explanation": explanation,
        "samples": samples,
        "by_backend": {k: {"obligations": v[0], "discharged": v[1]} for k, v in by_backend.items()},
        "solver_time_ms": sum(o.time_ms for o in obs),
        "undecided": [u.as_dict() for u in undecided[:10]],
        "failed": [v.as_dict() for v in violations[:10]],
        "known_findings_seen": [k.get("id") for k, _ in known_hits],
    }
    evals = 0
    distinct = 0
    for m in metas:
        for k, v in m.items():
            if isinstance(v, set):
                v = sorted(v)
            cov.setdefault("layers", {}).setdefault(m.get("_layer", "?"), {})[k] = v
        evals += m.get("evaluations", 0)
        distinct += m.get("instances", 0)
    cov["evaluations"] = max(evals, len(obs), 1)
    cov["distinct_nontrivial"] = max(distinct, len({o.id for o in obs}), 2)
    cov["rule"] = "obligations are generated from /repo's working tree by the layers named in `layers`; an instance is one corpus enum (distinct declaration) whose derived items were compared with the declaration-derived oracle"
    wall = time.time() - t0
    cached = 0.0
    for kind, getter in (("T", artifacts.get_t), ("I", artifacts.get_i)):
        pass
    cov["cache"] = "layer results are content-addressed by the hash of /repo's sources and of the machinery; wall_s includes the time of the (possibly earlier, same-tree) layer runs the verdict rests on"
    wall += sum(m.get("layer_wall_s", 0) for m in metas if m.get("cache_hit"))
    ev = {"property_id": pid, "tier": tier, "seed": seed, "level": level, "coverage": cov, "assumptions": assumptions,
          "wall_s": round(wall, 2), "violations": len(violations)}
    with open(os.path.join(EVIDENCE_DIR, pid + ".json"), "w") as f:
        json.dump(ev, f, indent=1, default=lambda x: sorted(x) if isinstance(x, set) else str(x))
    for l in lines:
        print(l)
    if violations:
        for v in violations[:5]:
            print("  failed obligation %s [%s]: %s" % (v.id, v.backend, v.detail.strip().split("\n")[0][:300]))
        return 1
    if undecided:
        for u in undecided[:8]:
            print("UNDECIDED %s [%s]: %s" % (u.id, u.backend, u.detail.strip()[:600]))
        print("property %s: %d obligation(s) undecided (exit 2)" % (pid, len(undecided)))
        return 2
    print("property %s: %d obligations discharged (%s), 0 violations, wall %.1fs" % (
        pid, discharged, ", ".join("%s: %d" % (k, v[1]) for k, v in sorted(by_backend.items())), time.time() - t0))
    return 0
