"""Layer T — Verus on the real generated function bodies, parametric in the enum (DESIGN §3.1)."""
import json
import os
import re
import concurrent.futures as cf
from . import corpus, overlay, expand
from .common import REPRS, VERIF, rmin, rmax, dom_min, dom_max, run, Undecided, log

SHIM_TYPES = [
    # (regex on canonical flat type, replacement)
    (re.compile(r"^:: core :: iter :: Map < :: core :: ops :: RangeInclusive < (\w+) > , fn \( \1 \) -> E >$"), "VxRangeMap"),
    (re.compile(r"^:: core :: iter :: Copied < :: core :: slice :: Iter < 'static , E > >$"), "VxCopied<E>"),
    (re.compile(r"^:: core :: iter :: Copied < :: core :: slice :: Iter < 'static , & 'static str > >$"), "VxCopied<&'static str>"),
    (re.compile(r"^:: core :: array :: IntoIter < E , \w+ >$"), "VxArrayIter"),
    (re.compile(r"^:: core :: option :: Option < E >$"), "Option<E>"),
    (re.compile(r"^usize$"), "usize"),
]

REFUTATION = re.compile(
    r"^error: (postcondition not satisfied|precondition not satisfied|invariant not satisfied[^\n]*|"
    r"loop invariant not satisfied[^\n]*|assertion failed|possible arithmetic (?:underflow/overflow|overflow|underflow)[^\n]*|"
    r"possible division by zero|index out of bounds[^\n]*|possible bit shift[^\n]*|"
    r"recommendation not met[^\n]*|decreases not satisfied[^\n]*|could not prove termination[^\n]*|"
    r"cannot show invariant holds[^\n]*|unable to prove[^\n]*|failed precondition[^\n]*|unreachable\(\) reached[^\n]*)",
    re.M)


DEFAULT_PTR_BYTES = int(os.environ.get("VERIF_PTR_BYTES", "8"))


HELPER = re.compile(r"\b__(next_back|next|as_str|MIN|MAX|iter|names|range|try_from|from_str|into)\b")


def helper_norm(text):
    """auto-enabled helper items are emitted under `__<default name>`; the body is otherwise the
    same template, so the double underscore is dropped before comparing bodies"""
    return HELPER.sub(lambda m: m.group(1), text)


def idx_lemma(repr_, bits, signed, proof, PTR_BYTES):
    if not signed:
        return "" if proof else "true,"
    if bits >= PTR_BYTES * 8:
        body = "forall|i: usize| (#[verifier::truncate] ((#[trigger] (#[verifier::truncate] (i as R))) as U)) as usize == i"
    else:
        body = ("forall|i: usize| i < %d ==> (#[verifier::truncate] ((#[verifier::truncate] ((#[trigger] (#[verifier::truncate] (i as R))) as U)) as usize)) == i"
                % (1 << bits))
    return ("assert(%s) by (bit_vector);" % body) if proof else body + ","


def prelude_text(repr_, shape, unsigned=None, PTR_BYTES=8):
    t = open(os.path.join(VERIF, "contracts", "prelude.rs.tmpl")).read()
    bits, signed, comp = REPRS[repr_]
    lo, hi = rmin(repr_), rmax(repr_)
    if repr_ in ("usize", "isize"):
        bits = PTR_BYTES * 8
        lo = -(1 << (bits - 1)) if signed else 0
        hi = (1 << (bits - 1)) - 1 if signed else (1 << bits) - 1
    sub = {
        "@PTR_BYTES@": str(PTR_BYTES),
        "@R@": repr_, "@U@": unsigned or comp, "@RMIN@": "(%d)" % lo, "@RMAX@": str(hi), "@MOD@": "(%dint + 1)" % (hi - lo),
        "@SHAPE_AXIOM@": "runs().len() == 1" if shape == "gapless" else "runs().len() >= 2",
        "@SIGNED@": "true" if signed else "false",
        "@IDX_ENSURES@": idx_lemma(repr_, bits, signed, False, PTR_BYTES),
        "@IDX_PROOF@": idx_lemma(repr_, bits, signed, True, PTR_BYTES),
        "@CAST_ENSURES@": ("forall|w: R| (#[trigger] (#[verifier::truncate] (w as U))) as int == if w >= 0 { w as int } else { w as int + %d + 1 }," % (2 * hi + 1)) if signed else "true,",
        "@CAST_PROOF@": ("assert(forall|w: R| (#[trigger] (#[verifier::truncate] (w as U))) as int == if w >= 0 { w as int } else { w as int + %d + 1 }) by (bit_vector);" % (2 * hi + 1)) if signed else "",
    }
    for k, v in sub.items():
        t = t.replace(k, v)
    return t


def shims_text(repr_):
    t = open(os.path.join(VERIF, "contracts", "shims.rs.tmpl")).read()
    bits, signed, comp = REPRS[repr_]
    return t.replace("@R@", repr_).replace("@U@", comp)


def module_tags(spec):
    tags = set(spec.tags)
    tags.add(spec.repr)
    tags.add("signed" if REPRS[spec.repr][1] else "unsigned")
    tags.add("bits%d" % REPRS[spec.repr][0])
    return tags


def build_overlay(entries, specs):
    ov = {}
    keys = sorted({e.key for e in entries if not e.key.startswith("item:")})
    chosen = {}
    for s in specs:
        tags = module_tags(s)
        m = {}
        for k in keys:
            e = overlay.select(entries, k, tags)
            if e is not None:
                m[k] = e.to_vx()
                chosen[(s.mod, k)] = e
        ov[s.mod] = m
    return ov, chosen


def assemble(spec, mod, entries, chosen, ptr_bytes=8, stubbed=()):
    """returns (text, fnmap) — fnmap: list of (first_line, last_line, key, properties)"""
    tags = module_tags(spec)
    problems = []
    fns = {f["key"]: f for f in mod["fns"]}
    included = [k for k in fns if (spec.mod, k) in chosen]
    lines = []
    fnmap = []

    def emit(text):
        for ln in text.rstrip("\n").split("\n"):
            lines.append(ln)

    emit(prelude_text(spec.repr, spec.shape(), PTR_BYTES=ptr_bytes))
    emit(shims_text(spec.repr))
    emit("verus! {")
    # struct definitions, as generated, with std iterator types mapped to their shim types
    for st in mod["structs"]:
        if not st["canon"]:
            continue
        emit("pub struct %s {" % st["canon"])
        for f in st["fields"]:
            ty = f["ty_canon"]
            for rx, rep in SHIM_TYPES:
                if rx.match(ty):
                    ty = rep
                    break
            else:
                problems.append("struct %s field %s: type %r outside the supported subset" % (st["canon"], f["name"], ty))
            emit("    pub %s: %s," % (f["name"], ty))
        emit("}")
    # accessors for the MIN/MAX constants under the names this configuration gave them (R3)
    emit("impl E {")
    for feat, specfn in (("MIN", "min_v"), ("MAX", "max_v")):
        nm = spec.item_name(feat) or "__" + feat
        if nm != feat and any(c["name"] == nm for c in mod["consts"]):
            emit("    #[verifier::external_body] pub fn %s() -> (e: E) ensures e.0 as int == %s(), e.valid() { unimplemented!() }" % (nm, specfn))
    emit("}")
    # literal accessors (R9)
    lit_decls = []
    for k in included:
        f = fns[k]
        e = chosen[(spec.mod, k)]
        for n, lit in enumerate(f["lits"]):
            want = None
            for sn, a, t in e.sections:
                if sn == "lit" and a.strip() == str(n):
                    want = t.strip()
            if want is None:
                problems.append("%s: literal %s (#%d) has no `lit` clause in the overlay" % (k, lit, n))
                continue
            m = re.match(r"^-?\s*[0-9a-fA-Fxob_]+?((?:u|i)(?:8|16|32|64|128|size))$", lit.replace(" ", ""))
            ty = m.group(1) if m else "usize"
            lit_decls.append("#[verifier::external_body] pub fn __vx_lit_%s_%d() -> (r: %s) ensures r as int == %s { unimplemented!() }"
                             % (re.sub(r"[^0-9A-Za-z]", "_", k), n, ty, want))
    for d in lit_decls:
        emit(d)
    places = {"E": [], "EIter": [], "ENames": [], "free": []}
    for k in included:
        f = fns[k]
        if f["errors"] and k not in stubbed:
            problems.append("%s: %s" % (k, "; ".join(f["errors"])))
        places[f["place"]].append(k)
    items = [e for e in overlay.items_for(entries, tags)]
    # keep only the most specific item per key
    best = {}
    for e in items:
        if e.key not in best or len(e.tags) > len(best[e.key].tags):
            best[e.key] = e
    items = []
    for e in best.values():
        needs = (e.get("needs") or "").split()
        if all(n in included for n in needs):
            items.append(e)
    have = {"E", "free"} | {st["canon"] for st in mod["structs"] if st["canon"]}
    for place in ("E", "EIter", "ENames", "free"):
        if place not in have:
            if places[place]:
                problems.append("functions placed in %s but no such struct in the expansion" % place)
            continue
        if place != "free":
            emit("impl %s {" % place)
        for k in places[place]:
            start = len(lines) + 1
            if k in stubbed:
                emit(fns[k]["verus_stub"])
                continue
            emit(fns[k]["verus"])
            fnmap.append((start, len(lines), k, chosen[(spec.mod, k)].properties(), fns[k]["emitted_name"]))
        for e in items:
            if (e.get("place") or "free").strip() == place:
                start = len(lines) + 1
                emit(e.get("text"))
                fnmap.append((start, len(lines), e.key, e.properties(), None))
        if place != "free":
            emit("}")
    # vacuity canary: must FAIL
    start = len(lines) + 1
    emit("pub proof fn __vx_canary() ensures false { axiom_wf(); }")
    fnmap.append((start, len(lines), "canary", [], "__vx_canary"))
    emit("} // verus!")
    emit("fn main() {}")
    return "\n".join(lines) + "\n", fnmap, problems


def classify(stderr):
    """list of (line, kind, message) for verifier refutations; plus other error strings"""
    refut, other = [], []
    blocks = re.split(r"\n(?=error)", stderr)
    for b in blocks:
        if not b.startswith("error"):
            continue
        first = b.split("\n", 1)[0]
        if first.startswith("error: aborting due to"):
            continue
        m = REFUTATION.match(b)
        locs = [int(x) for x in re.findall(r"--> [^\n:]+:(\d+):\d+", b)]
        # all primary/secondary spans: use every `NNN |` gutter line too
        gut = [int(x) for x in re.findall(r"^\s*(\d+) \|", b, re.M)]
        if m:
            refut.append((locs[0] if locs else 0, m.group(1), b.strip()[:3000], sorted(set(locs + gut))))
        else:
            other.append(b.strip()[:3000])
    return refut, other


def refutation_kind(kind, text):
    """`semantic`: an obligation of the code itself (function postcondition, precondition of an unsafe
    operation / callee, bounds, overflow, closure post-condition).  `scaffolding`: an obligation of the
    proof annotations (loop invariant, assert in a proof block, precondition of a lemma call)."""
    if kind.startswith("invariant") or kind.startswith("loop invariant") or kind.startswith("cannot show invariant") or kind == "assertion failed" \
            or kind.startswith("decreases") or kind.startswith("could not prove termination"):
        return "scaffolding"
    if kind.startswith("precondition") or kind.startswith("failed precondition"):
        # the call-site line is the one carrying the ^^^^ marker
        m = re.search(r"\n\s*\d+ \|([^\n]*)\n\s*\|\s*\^+", text)
        site = m.group(1) if m else text
        if re.search(r"\blemma_\w+\s*\(|\baxiom_wf\s*\(", site):
            return "scaffolding"
        return "semantic"
    return "semantic"


def verify_file(path, rlimit=30, threads=2, timeout=900):
    cmd = ["verus", path, "--output-json", "--time", "--rlimit", str(rlimit), "--num-threads", str(threads), "--multiple-errors", "4", "--triggers-mode", "silent"]
    rc, out, err, dt = run(cmd, cwd=os.path.dirname(path), timeout=timeout)
    try:
        js = json.loads(out)
    except Exception:
        js = None
    return rc, js, err, dt


def analyse(spec, text, fnmap, rc, js, err, dt):
    """per-function verdicts: {key: {status, properties, reason, time_ms}}"""
    res = {}
    crate = None
    if js is None or "verification-results" not in js or js["verification-results"].get("encountered-vir-error"):
        return None, "verus did not produce verification results: " + (err[-3000:] if err else "no output")
    refut, other = classify(err)
    hard = [o for o in other if re.match(r"error(\[E\d+\])?:", o) and "rlimit" not in o.lower() and "resource limit" not in o.lower()]
    if hard:
        return None, "verus/rustc rejected the assembled file (construct outside the supported subset?):\n" + "\n".join(hard[:3])
    # function-breakdown from --time
    fb = {}
    try:
        for m in js["times-ms"]["smt"]["smt-run-module-times"]:
            for f in m.get("function-breakdown", []):
                fb.setdefault(f["function"].split("::")[-1], []).append(f)
    except Exception:
        pass
    for (a, b, key, props, emitted) in fnmap:
        hits = [r for r in refut if a <= r[0] <= b]
        rl = [o for o in other if "rlimit" in o.lower() or "resource limit" in o.lower()]
        st = "verified"
        reason = ""
        kinds = []
        if hits:
            st = "failed"
            reason = "\n\n".join(h[2] for h in hits[:3])
            for h in hits:
                kinds.append(refutation_kind(h[1], h[2]))
        t_ms = 0
        ok_flags = []
        names = [emitted] if emitted else re.findall(r"\bfn (\w+)", "\n".join(text.split("\n")[a - 1:b]))
        for n in names:
            for f in fb.get(n, []):
                t_ms += f.get("time", 0)
                ok_flags.append(f.get("success", True))
        if st == "verified" and ok_flags and not all(ok_flags):
            # failed without a recognised refutation message => not decided (rlimit etc.)
            st = "undecided"
            reason = "verus reports failure without a refutation message: " + "\n".join(o for o in other[:2])
        if st == "verified" and not ok_flags and emitted:
            st = "undecided"
            reason = "function missing from verus function-breakdown"
        res[key] = {"status": st, "properties": props, "reason": reason, "time_ms": t_ms, "queries": len(ok_flags), "kinds": sorted(set(kinds))}
    unattributed = []
    for r in refut:
        if not any(a <= r[0] <= b for (a, b, *_r) in fnmap):
            unattributed.append(r[2])
    for o in other:
        if "rlimit" in o.lower() or "resource limit" in o.lower():
            # attribute by line
            locs = [int(x) for x in re.findall(r"--> [^\n:]+:(\d+):\d+", o)]
            for (a, b, key, props, emitted) in fnmap:
                if locs and a <= locs[0] <= b:
                    res[key]["status"] = "undecided"
                    res[key]["reason"] = o
    extra = {"unattributed": unattributed, "other_errors": [o for o in other if "rlimit" not in o.lower()][:5],
             "verified": js["verification-results"].get("verified"), "errors": js["verification-results"].get("errors"),
             "smt_ms": js["times-ms"].get("smt", {}).get("total"), "total_ms": js["times-ms"].get("total"), "wall_s": dt}
    return res, extra


def scan_assumptions(text):
    out = {}
    for pat in ("external_body", "assume_specification", "assume(", "admit(", "#[verifier::external", "unimplemented!"):
        out[pat] = text.count(pat)
    return out


def run_layer_t(scratch, reprs=None, jobs=8, keep_dir=None, target=None, ptr_bytes=None):
    """returns dict: modules -> {functions -> verdict}, plus bookkeeping"""
    ptr_bytes = ptr_bytes or DEFAULT_PTR_BYTES
    entries = overlay.parse()
    specs = corpus.t_cells(reprs)
    by_mod = {s.mod: s for s in specs}
    exp_path, live_specs, rejected = expand.expand_isolating(scratch, specs, name="corpus_t", target=target)
    exp_dt = 0
    ov, chosen = build_overlay(entries, specs)
    ext = expand.vx_extract(exp_path, ov)
    mods = {m["mod"]: m for m in ext["mods"]}
    out = {"modules": {}, "expand_s": exp_dt, "undecided": [], "files": {}, "rejected": rejected}
    for k, v in rejected.items():
        out["undecided"].append("layer-T cell %s is rejected by the macro / rustc (its bodies cannot be extracted): %s" % (k, v[:300]))
    vdir = keep_dir or os.path.join(scratch, "verus")
    os.makedirs(vdir, exist_ok=True)
    jobs_list = []
    for s in specs:
        if "a" not in s.tags:
            continue
        partner = by_mod[s.mod[:-1] + "b"]
        if s.mod not in mods or partner.mod not in mods:
            out["undecided"].append("module %s missing from expansion" % s.mod)
            continue
        ma, mb = mods[s.mod], mods[partner.mod]
        fa = {f["key"]: f for f in ma["fns"]}
        fb = {f["key"]: f for f in mb["fns"]}
        nonuniform = []
        for k in fa:
            if (s.mod, k) in chosen:
                if k not in fb or fa[k]["canon"] != fb[k]["canon"]:
                    nonuniform.append(k)
        text, fnmap, problems = assemble(s, ma, entries, chosen, ptr_bytes)
        for k in nonuniform:
            problems.append("%s: body is not uniform across enums (instance data left after R1-R9)" % k)
        path = os.path.join(vdir, s.mod + ".rs")
        with open(path, "w") as f:
            f.write(text)
        jobs_list.append((s, path, text, fnmap, problems, ma))
    baseline_bodies = {}
    try:
        with open(os.path.join(VERIF, "contracts", "baseline_bodies.json")) as bf:
            baseline_bodies = json.load(bf)
    except Exception:
        pass

    def verify_job(job):
        s, path, text, fnmap, problems, ma = job
        rc, js, err, dt = verify_file(path)
        res, extra = analyse(s, text, fnmap, rc, js, err, dt)
        stubbed = []
        if res is None:
            # the file as a whole is rejected (a construct outside the supported subset, or annotations that
            # no longer fit a changed body).  Second attempt: every function whose body differs from the
            # baseline, or whose overlay anchors were lost, is replaced by a contract-only stub and reported
            # undecided; the other functions are still verified (callers against the stubs' contracts).
            import hashlib
            fns_ = {f["key"]: f for f in ma["fns"]}
            cell = sorted(t for t in s.tags if t in corpus.T_CELLS)[0]
            for (a, b, k, props, emitted) in fnmap:
                if k not in fns_:
                    continue
                h = hashlib.sha1(helper_norm(s.repr + "|" + k + "|" + fns_[k]["canon"]).encode()).hexdigest()
                base = baseline_bodies.get("T/%s/%s/%s" % (s.repr, cell, k))
                if fns_[k]["errors"] or (base is not None and base != h):
                    stubbed.append(k)
            if stubbed:
                text2, fnmap2, problems2 = assemble(s, ma, entries, chosen, ptr_bytes, stubbed=set(stubbed))
                with open(path, "w") as f2:
                    f2.write(text2)
                rc, js, err, dt2 = verify_file(path)
                res2, extra2 = analyse(s, text2, fnmap2, rc, js, err, dt + dt2)
                if res2 is not None:
                    first_error = extra
                    res, extra, text, fnmap = res2, extra2, text2, fnmap2
                    problems = [p_ for p_ in problems if not any(p_.startswith(k + ":") for k in stubbed)]
                    for k in stubbed:
                        e_ = chosen.get((s.mod, k))
                        res[k] = {"status": "undecided", "properties": e_.properties() if e_ else [], "time_ms": 0, "queries": 0, "kinds": [],
                                  "reason": "the body of this function differs from the one the annotations were written for and the annotated "
                                            "function is rejected by verus/rustc; it was replaced by a contract-only stub (not verified):\n" + (first_error or "")[:1200]}
        return job, res, extra, text, fnmap, problems, stubbed

    with cf.ThreadPoolExecutor(max_workers=jobs) as ex:
        futs = [ex.submit(verify_job, j) for j in jobs_list]
        for fu in cf.as_completed(futs):
            (s, path, _t, _f, _p, ma), res, extra, text, fnmap, problems, stubbed = fu.result()
            fns = {f["key"]: f for f in ma["fns"]}
            entry = {"repr": s.repr, "cell": sorted(t for t in s.tags if t in corpus.T_CELLS)[0], "shape": s.shape(),
                     "problems": problems, "assumptions": scan_assumptions(text), "path": path}
            entry["stubbed"] = stubbed
            if res is None:
                entry["error"] = extra
                entry["functions"] = {}
            else:
                canary = res.pop("canary", None)
                entry["canary_failed_as_expected"] = bool(canary and canary["status"] == "failed")
                entry["functions"] = res
                entry["extra"] = extra
                for k, v in res.items():
                    if k in fns:
                        v["rules"] = fns[k]["rules"]
                        v["unsafe_blocks"] = fns[k]["unsafe_blocks"]
                        v["raw"] = fns[k]["raw"][:400]
            # functions of the module that are not under contract (reported, not verified)
            entry["not_under_contract"] = sorted(k for k in fns if k not in (res or {}))
            # structural forwarding obligation for the wrapper methods that stay outside Verus
            # (fold / rfold take generic closures): the body must be exactly `self.inner.<same>(<same args>)`
            fwd = {}
            uncontracted = []
            wrapper = {st["canon"] for st in ma["structs"] if any(f_["name"] == "inner" for f_ in st["fields"])}
            for k in entry["not_under_contract"]:
                m_ = re.match(r"^(Iterator|DoubleEndedIterator|ExactSizeIterator)\[(EIter|ENames)\]::(\w+)$", k)
                if not m_:
                    continue
                if m_.group(2) not in wrapper:
                    # not a wrapper over a std iterator: a generated method without a contract
                    uncontracted.append(k)
                    continue
                f = fns[k]
                args = [a[0] for a in f["inputs"] if a[0] != "self"]
                want = "{ self . inner . %s ( %s ) }" % (m_.group(3), " , ".join(args)) if args else "{ self . inner . %s ( ) }" % m_.group(3)
                got = re.sub(r"\s+", " ", f["canon"]).replace("( )", "( )")
                want_n = re.sub(r"\s+", " ", want)
                fwd[k] = {"ok": got.replace("( )", "()") == want_n.replace("( )", "()"), "got": got[:200], "want": want_n}
            entry["forwarding"] = fwd
            entry["uncontracted_iter_methods"] = uncontracted
            import hashlib
            entry["canon_hashes"] = {k: hashlib.sha1(helper_norm(s.repr + "|" + k + "|" + fns[k]["canon"]).encode()).hexdigest() for k in (res or {}) if k in fns}
            out["modules"][s.mod] = entry
    return out
