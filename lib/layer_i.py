"""Layer I — instances: the real, unmodified expansion of concrete corpus enums, compiled by the
real compiler and executed natively against the declaration-derived oracle (DESIGN §3.4).

This layer is BOUNDED over enums (a designed corpus) and, for the wide reprs, over arguments.
It supplies (a) the emission half of the seam between layers T and G, (b) the decision for bodies
that are inherently per-enum (match arms, table_inline), (c) concrete failing inputs for replay.
"""
import os
import random
import re
import shutil
from . import expand
from .common import REPRS, VERIF, rmin, rmax, wrap, run, Undecided, log
from .corpus import rust_str
from .layer_t import helper_norm

EMIT_PROPS = {
    "__RANGES": ["C01", "C05", "C03", "C07"],
    "__NAME": ["C03", "C04", "C08"],
    "__ENUM": ["C04", "C06", "C07"],
    "MIN": ["C01", "C05"],
    "MAX": ["C01", "C05"],
    "LIT": ["C06"],
}


def lit(r, x):
    """integer literal of type r with value x"""
    if x < 0:
        if x == rmin(r):
            return "%s::MIN" % r
        return "(-%d%s)" % (-x, r)
    return "%d%s" % (x, r)


def candidates(spec, rng, extra=200):
    r = spec.repr
    lo, hi = rmin(r), rmax(r)
    c = {lo, lo + 1, hi - 1, hi, 0, 1}
    if lo < 0:
        c.add(-1)
    for d in spec.discs():
        for k in (-2, -1, 0, 1, 2):
            c.add(d + k)
        for sh in (8, 16, 32, 64):
            for sg in (1, -1):
                c.add(d + sg * (1 << sh))
    for _ in range(extra):
        c.add(rng.randint(lo, hi))
        d = rng.choice(spec.discs())
        c.add(d + rng.randint(-70000, 70000))
    return sorted(x for x in c if lo <= x <= hi)


def gen_check(spec, mod, seed, tier="quick"):
    """Rust source of `pub fn __check(seed) -> Out` placed inside the corpus module"""
    r = spec.repr
    bits = REPRS[r][0]
    En = spec.ident
    sv = spec.sorted_variants()
    n = len(sv)
    consts = {c["name"]: c for c in mod["consts"]}
    if getattr(spec, "no_private", False):
        consts = {}     # the enum sits in an inner module: its private tables are not reachable from the driver
    structs = {st["canon"]: st["name"] for st in mod["structs"]}
    cfg = spec.cfg
    rng = random.Random(seed * 7919 + __import__('zlib').crc32(spec.mod.encode()) % 1000)
    L = []
    w = L.append
    w("    pub fn __check(seed: u64) -> crate::support::Out {")
    w("        #[allow(unused_imports)] use crate::support::*;")
    w("        #[allow(unused_imports)] use ::core::convert::TryFrom;")
    w("        #[allow(unused_imports)] use ::core::str::FromStr;")
    w("        let mut out = Out::new(%s);" % rust_str(spec.mod))
    w("        let _ = seed;")
    w("        static ORACLE: &[(i128, %s, &str, &str)] = &[" % En)
    for v in sv:
        w("            (%d, %s::%s, %s, %s)," % (v.disc, En, v.ident, rust_str(v.name), rust_str(v.ident)))
    w("        ];")
    w("        #[allow(unused_variables)] let disc = |v: %s| -> i128 { v as %s as i128 };" % (En, r))
    w("        #[allow(unused_variables)] let find = |x: i128| -> Option<i128> { ORACLE.binary_search_by_key(&x, |e| e.0).ok().map(|i| ORACLE[i].0) };")
    w("        #[allow(unused_variables)] let all: Vec<i128> = ORACLE.iter().map(|e| e.0).collect();")
    w("        #[allow(unused_variables)] let all_names: Vec<&'static str> = ORACLE.iter().map(|e| e.2).collect();")
    # C11: the oracle itself against the compiler's discriminants
    w("        for e in ORACLE { out.eq(\"C11\", \"discriminant\", &e.3, disc(e.1), e.0); }")

    # ---- emission (the seam) ------------------------------------------------------------
    runs = spec.runs()
    if "__RANGES" in consts:
        with_off = re.search(r",\s*\(\s*\)\s*\)", consts["__RANGES"]["ty"]) is None
        w("        out.guard(\"EMIT:__RANGES\", \"table\", |out| {")
        w("            static RUNS: &[(i128, i128, i128)] = &[")
        before = 0
        for (b, e) in runs:
            w("                (%d, %d, %d)," % (b, e, wrap(r, b - before)))
            before += e - b + 1
        w("            ];")
        w("            out.eq(\"EMIT:__RANGES\", \"len\", &0, %s::__RANGES.len(), RUNS.len());" % En)
        w("            for (k, t) in %s::__RANGES.iter().enumerate() {" % En)
        w("                if k >= RUNS.len() { break; }")
        w("                out.eq(\"EMIT:__RANGES\", \"start\", &k, *t.0.start() as i128, RUNS[k].0);")
        w("                out.eq(\"EMIT:__RANGES\", \"end\", &k, *t.0.end() as i128, RUNS[k].1);")
        if with_off:
            w("                out.eq(\"EMIT:__RANGES\", \"offset\", &k, t.1 as i128, RUNS[k].2);")
        w("            }")
        w("        });")
    if "__NAME" in consts:
        w("        out.eq(\"EMIT:__NAME\", \"table\", &0, %s::__NAME.to_vec(), all_names.clone());" % En)
    if "__ENUM" in consts:
        w("        out.eq(\"EMIT:__ENUM\", \"table\", &0, %s::__ENUM.iter().map(|v| disc(*v)).collect::<Vec<_>>(), all.clone());" % En)
    min_name = spec.item_name("MIN") or ("__MIN" if "__MIN" in consts else None)
    max_name = spec.item_name("MAX") or ("__MAX" if "__MAX" in consts else None)
    if min_name and min_name in consts:
        w("        out.eq(\"EMIT:MIN\", \"const\", &0, disc(%s::%s), all[0]);" % (En, min_name))
    if max_name and max_name in consts:
        w("        out.eq(\"EMIT:MAX\", \"const\", &0, disc(%s::%s), all[all.len() - 1]);" % (En, max_name))

    # ---- C19: every item used at its documented type (decided by rustc when this compiles) ------
    w("        fn __req<I: ::core::iter::Iterator<Item = T> + ::core::iter::DoubleEndedIterator + ::core::iter::ExactSizeIterator + ::core::iter::FusedIterator, T>() {}")
    if spec.item_name("as_str"):
        w("        { let _p: fn(%s) -> &'static str = %s::%s; }" % (En, En, spec.item_name("as_str")))
    if spec.item_name("from_str"):
        w("        { let _p: fn(&str) -> Option<%s> = %s::%s; }" % (En, En, spec.item_name("from_str")))
    if spec.item_name("into"):
        w("        { let _p: fn(%s) -> %s = %s::%s; }" % (En, r, En, spec.item_name("into")))
    for ft in ("next", "next_back"):
        if spec.item_name(ft):
            w("        { let _p: fn(%s) -> Option<%s> = %s::%s; }" % (En, En, En, spec.item_name(ft)))
    if spec.item_name("try_from"):
        w("        { let _p: fn(%s) -> Option<%s> = %s::%s; }" % (r, En, En, spec.item_name("try_from")))
    if spec.item_name("iter") and "EIter" in structs:
        w("        { let _p: fn() -> %s = %s::%s; __req::<%s, %s>(); }" % (structs["EIter"], En, spec.item_name("iter"), structs["EIter"], En))
    if spec.item_name("range") and "EIter" in structs:
        w("        { let _p: fn(%s, %s) -> %s = %s::%s; }" % (En, En, structs["EIter"], En, spec.item_name("range")))
    if spec.item_name("names") and "ENames" in structs:
        w("        { let _p: fn() -> %s = %s::%s; __req::<%s, &'static str>(); }" % (structs["ENames"], En, spec.item_name("names"), structs["ENames"]))
    if "TryFrom" in cfg:
        w("        { let _e: <%s as TryFrom<%s>>::Error = (); }" % (En, r))
    if "FromStr" in cfg:
        w("        { let _e: <%s as FromStr>::Err = (); }" % En)
    # ---- C01 ------------------------------------------------------------------------------
    f_into = spec.item_name("into")
    if f_into:
        w("        out.guard(\"C01\", \"into\", |out| { for e in ORACLE { out.eq(\"C01\", \"into\", &e.3, e.1.%s() as i128, e.0); } });" % f_into)
        w("        { const _C: %s = %s::%s.%s(); }" % (r, En, sv[0].ident, f_into))
    if "Into" in cfg:
        w("        out.guard(\"C01\", \"Into\", |out| { for e in ORACLE { out.eq(\"C01\", \"Into\", &e.3, <%s as From<%s>>::from(e.1) as i128, e.0); let x: %s = e.1.into(); out.eq(\"C01\", \"Into::into\", &e.3, x as i128, e.0); } });" % (r, En, r))
    f_try = spec.item_name("try_from")
    dom = None
    if f_try or "TryFrom" in cfg:
        if bits <= 16 and tier != "miri":
            dom = "%s::MIN..=%s::MAX" % (r, r)
        else:
            cs = candidates(spec, rng, {"quick": 200, "miri": 10}.get(tier, 2000))
            w("        static CANDS: &[%s] = &[%s];" % (r, ", ".join(lit(r, x) for x in cs)))
            dom = "CANDS.iter().copied()"
    if f_try:
        w("        out.guard(\"C01\", \"try_from\", |out| { for x in %s { out.eq(\"C01\", \"try_from\", &x, %s::%s(x).map(disc), find(x as i128)); } });" % (dom, En, f_try))
        if f_into:
            w("        out.guard(\"C01\", \"roundtrip\", |out| { for e in ORACLE { out.eq(\"C01\", \"try_from(into(v))\", &e.3, %s::%s(e.1.%s()).map(disc), Some(e.0)); } });" % (En, f_try, f_into))
    if "TryFrom" in cfg:
        w("        out.guard(\"C01\", \"TryFrom\", |out| { for x in %s { let g: Result<%s, ()> = <%s as TryFrom<%s>>::try_from(x); out.eq(\"C01\", \"TryFrom\", &x, g.ok().map(disc), find(x as i128)); } });" % (dom, En, En, r))

    # ---- C05 ------------------------------------------------------------------------------
    if spec.item_name("MIN"):
        w("        out.eq(\"C05\", \"MIN\", &0, disc(%s::%s), all[0]);" % (En, spec.item_name("MIN")))
        w("        { const _C: %s = %s::%s; }" % (En, En, spec.item_name("MIN")))
    if spec.item_name("MAX"):
        w("        out.eq(\"C05\", \"MAX\", &0, disc(%s::%s), all[all.len() - 1]);" % (En, spec.item_name("MAX")))
        w("        { const _C: %s = %s::%s; }" % (En, En, spec.item_name("MAX")))
    f_next, f_back = spec.item_name("next"), spec.item_name("next_back")
    if f_next:
        w("        out.guard(\"C05\", \"next\", |out| { for (i, e) in ORACLE.iter().enumerate() { let g: Option<%s> = e.1.%s(); out.eq(\"C05\", \"next\", &e.3, g.map(disc), all.get(i + 1).copied()); } });" % (En, f_next))
    if f_back:
        w("        out.guard(\"C05\", \"next_back\", |out| { for (i, e) in ORACLE.iter().enumerate() { let g: Option<%s> = e.1.%s(); out.eq(\"C05\", \"next_back\", &e.3, g.map(disc), if i == 0 { None } else { Some(all[i - 1]) }); } });" % (En, f_back))
    if f_next and f_back:
        w("        out.guard(\"C05\", \"next_back(next)\", |out| { for e in ORACLE { if let Some(y) = e.1.%s() { out.eq(\"C05\", \"next_back(next(v))\", &e.3, y.%s().map(disc), Some(e.0)); } } });" % (f_next, f_back))
    if f_next and spec.item_name("MIN"):
        w("        out.guard(\"C05\", \"walk\", |out| { let mut v = Some(%s::%s); let mut seen = Vec::new(); while let Some(x) = v { seen.push(disc(x)); if seen.len() > all.len() + 1 { break; } v = x.%s(); } out.eq(\"C05\", \"walk from MIN\", &0, seen, all.clone()); });" % (En, spec.item_name("MIN"), f_next))

    # ---- C03 ------------------------------------------------------------------------------
    f_as = spec.item_name("as_str")
    if f_as:
        w("        out.guard(\"C03\", \"as_str\", |out| { for e in ORACLE { let g: &'static str = e.1.%s(); out.eq(\"C03\", \"as_str\", &e.3, g, e.2); } });" % f_as)
    if "Display" in cfg:
        w("        out.guard(\"C03\", \"Display\", |out| { for e in ORACLE { out.eq(\"C03\", \"Display\", &e.3, format!(\"{}\", e.1), e.2.to_string()); } });")
    if "Debug" in cfg:
        w("        out.guard(\"C03\", \"Debug\", |out| { for e in ORACLE { out.eq(\"C03\", \"Debug\", &e.3, format!(\"{:?}\", e.1), e.2.to_string()); } });")
    if "IntoStr" in cfg:
        w("        out.guard(\"C03\", \"IntoStr\", |out| { for e in ORACLE { out.eq(\"C03\", \"IntoStr\", &e.3, <&'static str as From<%s>>::from(e.1), e.2); } });" % En)

    # ---- C04 ------------------------------------------------------------------------------
    f_from = spec.item_name("from_str")
    if f_from or "FromStr" in cfg:
        w("        let idents: Vec<&'static str> = ORACLE.iter().map(|e| e.3).collect();")
        w("        let probes = probe_strings(&all_names, &idents, %d);" % (64 if tier == "quick" else (100000 if n <= 1500 else 200)))
        w("        let first = |s: &str| -> Option<i128> { ORACLE.iter().find(|e| e.2 == s).map(|e| e.0) };")
    if f_from:
        w("        out.guard(\"C04\", \"from_str\", |out| { for s in &probes { let g: Option<%s> = %s::%s(s); out.eq(\"C04\", \"from_str\", s, g.map(disc), first(s)); } });" % (En, En, f_from))
    if "FromStr" in cfg:
        w("        out.guard(\"C04\", \"FromStr\", |out| { for s in &probes { let g: Result<%s, ()> = s.parse::<%s>(); out.eq(\"C04\", \"FromStr\", s, g.ok().map(disc), first(s)); let g2: Result<%s, ()> = <%s as FromStr>::from_str(s); out.eq(\"C04\", \"FromStr::from_str\", s, g2.ok().map(disc), first(s)); } });" % (En, En, En, En))
    if f_from and f_as:
        w("        out.guard(\"C04\", \"from_str(as_str)\", |out| { for e in ORACLE { out.eq(\"C04\", \"from_str(as_str(v))\", &e.3, %s::%s(e.1.%s()).map(disc), first(e.2)); } });" % (En, f_from, f_as))

    # ---- C06 / C07 / C08 -------------------------------------------------------------------
    depth = 6 if tier == "quick" else 9
    randoms = 60 if tier == "quick" else 600
    if tier == "miri":
        depth, randoms = 3, 3          # the interpreter is ~100x slower; every operation is still exercised
    if n > 400:
        # very large enums: every operation is still exercised, but with few, short histories
        depth, randoms = (3, 6) if n <= 5000 else (2, 2)
    f_iter = spec.item_name("iter")
    heavy = n * max(len(runs), 1) > 3000000      # traversal cost of next_and_back mode is n x runs
    if f_iter and heavy:
        w("        out.guard(\"C06\", \"iter\", |out| { check_iterator_light(\"C06\", \"iter()\", &|| %s::%s(), &disc, &all, out); });" % (En, f_iter))
    elif f_iter:
        w("        out.guard(\"C06\", \"iter\", |out| { check_iterator(\"C06\", \"iter()\", &|| %s::%s(), &disc, &all, seed, %d, %d, out); });" % (En, f_iter, depth, randoms))
    f_range = spec.item_name("range")
    if f_range and f_iter:
        if n <= 9:
            w("        out.guard(\"C07\", \"range\", |out| { for a in 0..all.len() { for b in 0..all.len() {")
            w("            let want: Vec<i128> = if a <= b { all[a..=b].to_vec() } else { Vec::new() };")
            w("            let what = format!(\"range({},{})\", ORACLE[a].3, ORACLE[b].3);")
            if tier == "miri":
                w("            check_iterator_light(\"C07\", &what, &|| %s::%s(ORACLE[a].1, ORACLE[b].1), &disc, &want, out);" % (En, f_range))
            else:
                w("            check_iterator(\"C07\", &what, &|| %s::%s(ORACLE[a].1, ORACLE[b].1), &disc, &want, seed ^ ((a * 131 + b) as u64), 4, 6, out);" % (En, f_range))
            w("        } } });")
        else:
            pairs = set()
            idx = [0, 1, n // 2, n - 2, n - 1]
            for a in idx:
                for b in idx:
                    pairs.add((a, b))
            # run boundaries
            pos = 0
            for (b_, e_) in runs[:6] + runs[-3:]:
                pass
            for _ in range(30 if tier == "quick" else (400 if not heavy else 12)):
                pairs.add((rng.randrange(n), rng.randrange(n)))
            w("        static PAIRS: &[(usize, usize)] = &[%s];" % ", ".join("(%d, %d)" % p for p in sorted(pairs)))
            w("        out.guard(\"C07\", \"range\", |out| { for &(a, b) in PAIRS {")
            w("            let want: Vec<i128> = if a <= b { all[a..=b].to_vec() } else { Vec::new() };")
            w("            let what = format!(\"range({},{})\", ORACLE[a].3, ORACLE[b].3);")
            if heavy:
                w("            check_iterator_light(\"C07\", &what, &|| %s::%s(ORACLE[a].1, ORACLE[b].1), &disc, &want, out);" % (En, f_range))
            else:
                w("            check_iterator(\"C07\", &what, &|| %s::%s(ORACLE[a].1, ORACLE[b].1), &disc, &want, seed ^ ((a * 131 + b) as u64), 3, 4, out);" % (En, f_range))
            w("        } });")
            if n <= 400:
                w("        out.guard(\"C07\", \"range-all-pairs\", |out| { for a in 0..all.len() { for b in 0..all.len() {")
                w("            let it = %s::%s(ORACLE[a].1, ORACLE[b].1);" % (En, f_range))
                w("            let want_len = if a <= b { b - a + 1 } else { 0 };")
                w("            out.evals += 1;")
                w("            if it.len() != want_len { out.fail(\"C07\", \"range len\", format!(\"range({},{}) len={} want={}\", ORACLE[a].3, ORACLE[b].3, it.len(), want_len)); return; }")
                w("            let mut k = a; for v in it { if k > b || disc(v) != all[k] { out.fail(\"C07\", \"range items\", format!(\"range({},{}) item {} wrong\", ORACLE[a].3, ORACLE[b].3, k)); return; } k += 1; }")
                w("            if a <= b && k != b + 1 { out.fail(\"C07\", \"range items\", format!(\"range({},{}) ended early at {}\", ORACLE[a].3, ORACLE[b].3, k)); return; }")
                w("        } } });")
    f_names = spec.item_name("names")
    if f_names:
        w("        out.guard(\"C08\", \"names\", |out| { check_iterator(\"C08\", \"names()\", &|| %s::%s(), &|x: &'static str| x, &all_names, seed, %d, %d, out); });" % (En, f_names, depth, randoms // 2))
        w("        out.eq(\"C08\", \"names().len()\", &0, %s::%s().len(), all.len());" % (En, f_names))
        if f_iter and f_as:
            w("        out.guard(\"C08\", \"zip\", |out| { for (v, nm) in %s::%s().zip(%s::%s()) { out.eq(\"C08\", \"iter().zip(names())\", &disc(v), nm, v.%s()); } });" % (En, f_iter, En, f_names, f_as))
    w("        out")
    w("    }")
    return "\n".join(L)


MAIN_RS = """
mod support;
fn main() {
    let seed: u64 = std::env::var("VERIF_SEED").ok().and_then(|s| s.parse().ok()).unwrap_or(1);
    let filter: Vec<String> = std::env::args().skip(1).collect();
    // panics inside guarded checks are reported through FAIL lines; the message also goes to stderr
    // so that a non-unwinding panic (e.g. rustc's invalid-enum-value trap) leaves a trace
    std::panic::set_hook(Box::new(|info| { eprintln!("PANIC: {}", info); }));
    let checks: Vec<(&str, fn(u64) -> support::Out)> = vec![
%(entries)s
    ];
    for (name, f) in checks {
        if !filter.is_empty() && !filter.iter().any(|x| x == name) { continue; }
        match std::panic::catch_unwind(|| f(seed)) {
            Ok(o) => {
                for l in &o.lines { println!("{}", l); }
                println!("DONE\\t{}\\t{}", name, o.evals);
            }
            Err(_) => println!("FAIL\\t{}\\tC02\\tpanic\\tuncaught panic in check", name),
        }
    }
}
"""


def render_instance_crate(dirpath, specs, mods, seed, tier, name="inst"):
    parts = ["#![allow(dead_code, unused_imports, non_camel_case_types, unreachable_patterns, unused_unsafe, unused_comparisons, clippy::all)]"]
    entries = []
    for s in specs:
        text = s.render()
        assert text.rstrip().endswith("}")
        body = text.rstrip()[:-1]
        parts.append(body + gen_check(s, mods[s.mod], seed, tier) + "\n}\n")
        entries.append('        ("%s", %s::__check as fn(u64) -> support::Out),' % (s.mod, s.mod))
    parts.append(MAIN_RS % {"entries": "\n".join(entries)})
    # line ranges of the modules in the rendered file
    ranges = []
    line = 1
    for i, p_ in enumerate(parts):
        nl = p_.count("\n") + 1
        if 1 <= i <= len(specs):
            ranges.append((line, line + nl - 1, specs[i - 1].mod))
        line += nl
    expand.write_crate(dirpath, name, "\n".join(parts))
    shutil.copy(os.path.join(VERIF, "harness", "support.rs"), os.path.join(dirpath, "src", "support.rs"))
    return ranges


def run_instances(scratch, specs, seed=1, tier="quick", target=None, name="inst", keep=None):
    """returns {"modules": {mod: {"fails": [...], "evals": n}}, "build_error": str|None, ...}"""
    target = target or os.path.join(scratch, "target")
    res = {"modules": {}, "build_error": None, "rejected": {}}
    all_specs = list(specs)
    try:
        exp_path, specs, rej0 = expand.expand_isolating(scratch, specs, name=name + "_x", target=target)
        res["rejected"].update(rej0)
    except expand.ExpandError as e:
        res["build_error"] = "expansion failed:\n" + str(e)[-6000:]
        return res
    ext = expand.vx_extract(exp_path)
    mods = {m["mod"]: m for m in ext["mods"]}
    missing = [s.mod for s in specs if s.mod not in mods]
    if missing:
        raise Undecided("modules missing from expansion: %s" % missing[:5])
    import hashlib
    res["unsafe_fns"] = {}
    for s_ in specs:
        lst = []
        for f in mods[s_.mod]["fns"]:
            if f["unsafe_blocks"] > 0:
                lst.append([f["key"], hashlib.sha1(helper_norm(s_.repr + "|" + f["key"] + "|" + f["canon"]).encode()).hexdigest(), f["unsafe_blocks"]])
        res["unsafe_fns"][s_.mod] = lst
    d = keep or os.path.join(scratch, name)
    live = list(specs)
    for attempt in range(4):
        ranges = render_instance_crate(d, live, mods, seed, tier, name=name)
        check_start = {}
        for (a, b, modname) in ranges:
            sp_ = next(x for x in live if x.mod == modname)
            check_start[modname] = a + sp_.render().rstrip()[:-1].count("\n")
        rc, out, err, dt = run(["cargo", "build", "--offline", "--quiet"], cwd=d, env={"CARGO_TARGET_DIR": target}, timeout=3600)
        res["build_s"] = res.get("build_s", 0) + dt
        if rc == 0:
            break
        # attribute compile errors to corpus modules by line number; drop those modules and retry
        bad = {}
        in_check_only = {}
        for blk in re.split(r"\n(?=error)", err):
            if not blk.startswith("error"):
                continue
            m = re.search(r"--> src/main\.rs:(\d+):", blk)
            if not m:
                continue
            ln = int(m.group(1))
            for (a, b, modname) in ranges:
                if a <= ln <= b:
                    in_check = ln >= check_start.get(modname, 10 ** 9)
                    is_probe = re.search(r"let _p:|__req::|let _e:|const _C:", blk) is not None
                    if in_check and not is_probe:
                        in_check_only.setdefault(modname, blk.strip()[:2000])
                    else:
                        # prefer a typed-probe / declaration error as the module's reason
                        if modname not in bad or is_probe:
                            bad[modname] = blk.strip()[:1500]
        # an error inside the generated oracle driver with no probe/declaration error in the same module
        # is a defect of the harness, not of the macro
        for modname, blk in in_check_only.items():
            if modname not in bad:
                res["build_error"] = "error inside the generated oracle driver of %s (harness defect):\n%s" % (modname, blk)
                return res
        if not bad:
            res["build_error"] = err[-8000:]
            return res
        for k, v in bad.items():
            res["rejected"][k] = v
        live = [s_ for s_ in live if s_.mod not in bad]
    else:
        res["build_error"] = "still failing after removing rejected modules:\n" + err[-4000:]
        return res
    specs = live
    exe = os.path.join(target, "debug", name)
    rc, out, err, dt = run([exe], env={"VERIF_SEED": str(seed)}, timeout=3600)
    res["run_s"] = dt
    crashed = {}
    if rc != 0:
        # the driver died (abort / signal — e.g. the invalid-enum-value trap of a debug build): find the
        # module(s) by running the modules that did not report DONE one at a time
        done = {l.split("\t")[1] for l in out.split("\n") if l.startswith("DONE\t")}
        outs = [out]
        for s_ in specs:
            if s_.mod in done:
                continue
            # a check that kills the process is recorded and skipped in the next run of the same module, so that the
            # module's remaining checks (other properties) are still decided
            skip = []
            for _round in range(24):
                rc1, out1, err1, dt1 = run([exe, s_.mod], env={"VERIF_SEED": str(seed), "VERIF_SKIP": ";".join(skip)}, timeout=1200)
                res["run_s"] += dt1
                if rc1 == 0:
                    outs.append(out1)
                    break
                msgs = [l for l in err1.split("\n") if l.startswith("PANIC:") or "invalid value" in l or "unsafe precondition" in l]
                at = [l.split("\t") for l in err1.split("\n") if l.startswith("AT\t")]
                where = at[-1] if at else ["AT", s_.mod, "C02", "?"]
                crashed.setdefault(s_.mod, []).append((where[2], where[3], "process died with status %d during the %s check: %s" % (rc1, where[3], " | ".join(msgs[-3:])[:600] or err1[-300:])))
                key = "%s/%s" % (where[2], where[3])
                if not at or key in skip:
                    break
                skip.append(key)
        out = "\n".join(outs)
        rc = 0
    res["mods_info"] = mods
    for s in all_specs:
        res["modules"][s.mod] = {"fails": [], "evals": 0, "done": False}
    for line in out.split("\n"):
        p = line.split("\t")
        if p[0] == "FAIL" and len(p) >= 5:
            res["modules"].setdefault(p[1], {"fails": [], "evals": 0, "done": False})["fails"].append(
                {"prop": p[2], "check": p[3], "detail": p[4]})
        elif p[0] == "DONE" and len(p) >= 3:
            m = res["modules"].setdefault(p[1], {"fails": [], "evals": 0, "done": False})
            m["evals"] = int(p[2])
            m["done"] = True
    for modname, lst in crashed.items():
        m = res["modules"].setdefault(modname, {"fails": [], "evals": 0, "done": False})
        m["done"] = True
        for (prop, check, why) in lst:
            m["fails"].append({"prop": "C02", "check": "crash in " + check, "detail": why})
            if prop != "C02":
                m["fails"].append({"prop": prop, "check": "crash in " + check, "detail": why})
    return res


def compile_only(scratch, specs, name="cc", target=None, extra_body="fn main() {}\n", rounds=4):
    """type-check corpus modules with the real macro; returns {mod: rustc message} for rejected ones"""
    target = target or os.path.join(scratch, "target")
    d = os.path.join(scratch, name)
    live = list(specs)
    rejected = {}
    err = ""
    for attempt in range(rounds):
        parts = ["#![allow(dead_code, unused_imports, non_camel_case_types, unreachable_patterns, unused_unsafe, unused_comparisons, clippy::all)]"]
        ranges = []
        line = 2
        for s in live:
            t = s.render()
            nl = t.count("\n") + 1
            ranges.append((line, line + nl - 1, s.mod))
            parts.append(t)
            line += nl
        parts.append(extra_body)
        expand.write_crate(d, name, "\n".join(parts))
        rc, out, err, dt = run(["cargo", "check", "--offline", "--quiet"], cwd=d, env={"CARGO_TARGET_DIR": target}, timeout=3600)
        if rc == 0:
            return rejected, None
        bad = {}
        for blk in re.split(r"\n(?=error)", err):
            if not blk.startswith("error"):
                continue
            m = re.search(r"--> src/main\.rs:(\d+):", blk)
            if not m:
                continue
            ln = int(m.group(1))
            for (a, b, modname) in ranges:
                if a <= ln <= b:
                    bad.setdefault(modname, blk.strip()[:1500])
        if not bad:
            return rejected, err[-6000:]
        rejected.update(bad)
        live = [s for s in live if s.mod not in bad]
    return rejected, "still failing after %d rounds: %s" % (rounds, err[-3000:])
