"""Build corpus crates against /repo's working tree and expand them with the real macro."""
import json
import os
import shutil
from .common import REPO, VX, run, Undecided, log

CARGO_TOML = """[package]
name = "%(name)s"
version = "0.0.0"
edition = "2021"

[dependencies]
enum-tools = { path = "%(repo)s" }

[workspace]

[profile.dev]
debug = false
opt-level = 0
incremental = false
"""


def write_crate(dirpath, name, main_rs, extra_toml=""):
    os.makedirs(os.path.join(dirpath, "src"), exist_ok=True)
    with open(os.path.join(dirpath, "Cargo.toml"), "w") as f:
        f.write(CARGO_TOML % {"name": name, "repo": REPO} + extra_toml)
    lock = os.path.join(REPO, "Cargo.lock")
    if os.path.exists(lock):
        shutil.copy(lock, os.path.join(dirpath, "Cargo.lock"))
    with open(os.path.join(dirpath, "src", "main.rs"), "w") as f:
        f.write(main_rs)


def crate_source(specs, body="fn main() {}\n", inner_attrs=""):
    parts = [inner_attrs, "#![allow(dead_code, unused_imports, non_camel_case_types, unreachable_patterns, unused_unsafe, clippy::all)]\n"]
    for s in specs:
        parts.append(s.render())
        parts.append("")
    parts.append(body)
    return "\n".join(parts)


def expand(scratch, specs, name="corpus_x", target=None):
    """returns (expansion text, vx-extraction dict without overlay)"""
    d = os.path.join(scratch, name)
    write_crate(d, name, crate_source(specs))
    target = target or os.path.join(scratch, "target")
    rc, out, err, dt = run(["cargo", "rustc", "--offline", "--quiet", "--", "-Zunpretty=expanded"], cwd=d,
                           env={"RUSTC_BOOTSTRAP": "1", "CARGO_TARGET_DIR": target}, timeout=1800)
    if rc != 0 or not out.strip():
        raise ExpandError(err[-2000000:])
    path = os.path.join(scratch, name + ".expanded.rs")
    with open(path, "w") as f:
        f.write(out)
    return path, dt


class ExpandError(Exception):
    pass


def vx_extract(expanded_path, overlay=None, scratch=None):
    cmd = [VX, "extract", expanded_path]
    if overlay is not None:
        op = expanded_path + ".overlay.json"
        with open(op, "w") as f:
            json.dump(overlay, f)
        cmd.append(op)
    rc, out, err, dt = run(cmd, timeout=600)
    if rc != 0:
        raise Undecided("vx extract failed: " + err[-2000:])
    return json.loads(out)


def expand_isolating(scratch, specs, name="corpus_x", target=None, rounds=8):
    """expand; corpus modules the macro rejects are dropped and reported: (path, live specs, {mod: message})"""
    import re
    live = list(specs)
    rejected = {}
    last = ""
    for attempt in range(rounds):
        src = crate_source(live)
        # line ranges of the modules
        ranges = []
        line = src[: src.index(live[0].render())].count("\n") + 1 if live else 1
        pos = 0
        for s_ in live:
            t = s_.render()
            idx = src.index(t, pos)
            start = src[:idx].count("\n") + 1
            ranges.append((start, start + t.count("\n"), s_.mod))
            pos = idx + len(t)
        try:
            path, dt = expand(scratch, live, name=name, target=target)
            return path, live, rejected
        except ExpandError as e:
            last = str(e)
            bad = {}
            for blk in re.split(r"\n(?=error)", last):
                if not blk.startswith("error"):
                    continue
                m = re.search(r"--> src/main\.rs:(\d+):", blk)
                if not m:
                    continue
                ln = int(m.group(1))
                for (a, b, modname) in ranges:
                    if a <= ln <= b:
                        bad.setdefault(modname, blk.strip()[:1500])
            if not bad:
                raise
            rejected.update(bad)
            live = [s_ for s_ in live if s_.mod not in bad]
    raise ExpandError("still failing after removing rejected modules: " + last[-3000:])
