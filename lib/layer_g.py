"""Layer G — Verus on slices of the generator, taken verbatim from /repo/src on every run (DESIGN §3.2)."""
import json
import os
import re
from . import overlay, layer_t
from .common import REPO, VERIF, VX, run, Undecided

# the wrapper functions: signature and contract are ours, the body statements are the slices
WRAPPERS = r'''
verus! {
@MODE_ENUM@

/// parser/mod.rs: min_key / max_key / value_ranges / mode, from the key-sorted variant list
fn g_parse_runs<V>(values: &Vec<(i64, V)>) -> (res: (i64, i64, Mode))
    requires values@.len() >= 1, sorted_strict(keys(values@)),
    ensures
        res.0 as int == keys(values@)[0],
        res.1 as int == keys(values@).last(),
        match res.2 {
            // gapless <=> every value between the smallest and the largest discriminant is declared
            Mode::Gapless => forall|x: int| has(keys(values@), values@.len() as int, x) <==> (keys(values@)[0] <= x && x <= keys(values@).last()),
            // otherwise: at least two maximal runs, listed ascending, covering the discriminants exactly
            Mode::WithHoles { value_ranges } => value_ranges@.len() >= 2 && is_runs(value_ranges@, keys(values@)),
        },
{
    let ghost k = keys(values@);
@SLICE_min_key@
@SLICE_max_key@
    proof { assert(min_key as int == k[0]); assert(max_key as int == k.last()); }
@SLICE_value_ranges@
    proof {
        assert(is_runs(value_ranges@, k));
        if value_ranges@.len() == 1 { lemma_single_run_gapless(value_ranges@, k); }
    }
@SLICE_mode@
    (min_key, max_key, mode)
}

/// feature/table_range.rs: the running offset of the range table
fn g_range_table(value_ranges: &Vec<(i64, i64)>, with_offset: bool, repr: &Repr) -> (res: Vec<Entry>)
    requires
        forall|j: int| 0 <= j < value_ranges@.len() ==> (#[trigger] value_ranges@[j]).0 <= value_ranges@[j].1,
        before(value_ranges@, value_ranges@.len() as int) <= 65534,
    ensures
        res@.len() == value_ranges@.len(),
        // entry k is built from (start_k, end_k, start_k, number of variants before run k)
        forall|k: int| 0 <= k < res@.len() ==> (if with_offset {
                entry_off(#[trigger] res@[k]) == Some((value_ranges@[k].0 as int, value_ranges@[k].1 as int, value_ranges@[k].0 as int, before(value_ranges@, k)))
            } else {
                entry_plain(res@[k]) == Some((value_ranges@[k].0 as int, value_ranges@[k].1 as int))
            }),
{
@SLICE_ofs_loop@
    h
}

pub proof fn __vx_canary() ensures false { }
} // verus!
fn main() {}
'''

SLICE_SPEC = {
    "parser/mod.rs": [
        {"id": "min_key", "fn": "parse", "let": "min_key"},
        {"id": "max_key", "fn": "parse", "let": "max_key"},
        {"id": "value_ranges", "fn": "parse", "let": "value_ranges"},
        {"id": "mode", "fn": "parse", "let": "mode"},
    ],
    "generator/mod.rs": [{"id": "Mode", "enum": "Mode"}],
    "feature/table_range.rs": [{"id": "ofs_loop", "fn": "generate", "for_over": "value_ranges . iter ()", "with_preceding_lets": ["ofs", "hl", "h"]}],
    "parser/values.rs": [{"id": "sort_site", "fn": "parse_values", "let_with_next": "values", "must_contain": "collect"}],
}

EXPECTED_SORT_SITE = ("let mut values = values . iter () . map (| (k , v) | (* k , v . clone ())) . collect ::< Vec < _ >> () ;",
                      "values . sort_by_key (| v | v . 0) ;")
EXPECTED_TEMPLATES = ["( # b1 ..= # e1 , ( # b1 ) . wrapping_sub ( # o1 ) )", "( # b1 ..= # e1 , () )"]


def run_layer_g(scratch):
    entries = overlay.parse(os.path.join(VERIF, "contracts", "gen_overlay.vspec"))
    ov = {e.key: e.to_vx() for e in entries}
    # occurrence-numbered anchors: "@2 text"
    for o in ov.values():
        for sect in ("after_stmt", "before_stmt"):
            for a in o.get(sect, []):
                m = re.match(r"^(\d+) (.*)$", a["anchor"])
                if a["anchor"][:1].isdigit() and m:
                    a["occurrence"] = int(m.group(1))
                    a["anchor"] = m.group(2)
    slices = {}
    problems = []
    for rel, items in SLICE_SPEC.items():
        spec_path = os.path.join(scratch, "gspec_%s.json" % rel.replace("/", "_"))
        with open(spec_path, "w") as f:
            json.dump({"items": items, "overlay": ov}, f)
        rc, out, err, dt = run([VX, "slice", os.path.join(REPO, "src", rel), spec_path])
        if rc != 0:
            raise Undecided("vx slice failed on %s: %s" % (rel, err[-1000:]))
        d = json.loads(out)
        for k, v in d.items():
            slices[k] = v
            for e in v.get("errors", []):
                if k != "sort_site":
                    problems.append("%s: %s" % (k, e))
    text = open(os.path.join(VERIF, "contracts", "gen_prelude.rs")).read() + WRAPPERS
    for k, v in slices.items():
        if k == "sort_site":
            continue
        if k == "Mode":
            # visibility has no semantics here; Verus wants `pub` for the auto-generated variant predicates
            text = text.replace("@MODE_ENUM@", re.sub(r"^\s*pub \( crate\) enum", "pub enum", v.get("text") or ""))
        else:
            text = text.replace("@SLICE_%s@" % k, v.get("text") or "")
    left = re.findall(r"@SLICE_\w+@|@MODE_ENUM@", text)
    if left:
        problems.append("slices not found: %s" % left)
    res = {"problems": problems, "functions": {}, "templates": slices.get("ofs_loop", {}).get("quote_templates"),
           "slices": {k: (v.get("raw") or "")[:600] for k, v in slices.items()}}
    # structural obligations: the sort site (C17/C18) and the quote templates (recorded for the seam)
    vsrc = open(os.path.join(REPO, "src", "parser", "values.rs")).read()
    # the Vec collected from the HashMap must be sorted by key UNCONDITIONALLY: the statement that directly
    # follows the collect in the same block is the sort (slice of two adjacent statements)
    raw = re.sub(r"\s+", " ", (slices.get("sort_site", {}).get("raw") or ""))
    want = ("let mut values = values . iter ( ) . map ( | ( k , v ) | ( * k , v . clone ( ) ) ) . collect :: < Vec < _ > > ( ) ; "
            "values . sort_by_key ( | v | v . 0 ) ;")
    norm = lambda t: re.sub(r"\s+", "", t)
    site_ok = norm(raw) == norm(want)
    res["sort_site_ok"] = bool(site_ok)
    res["sort_site_found"] = raw[:400]
    res["hashmap_insert_checked"] = "values.insert(" in vsrc and "DuplicateValue" in vsrc
    res["templates_as_expected"] = (res["templates"] == EXPECTED_TEMPLATES)
    if problems:
        return res
    path = os.path.join(scratch, "layer_g.rs")
    with open(path, "w") as f:
        f.write(text)
    rc, js, err, dt = layer_t.verify_file(path)
    res["wall_s"] = dt
    if js is None or "verification-results" not in js:
        res["error"] = "verus produced no result: " + err[-3000:]
        return res
    refut, other = layer_t.classify(err)
    hard = [o for o in other if re.match(r"error(\[E\d+\])?:", o) and "rlimit" not in o.lower()]
    if hard:
        res["error"] = "verus/rustc rejected the assembled generator file:\n" + "\n".join(hard[:3])
        return res
    lines = text.split("\n")
    ranges = {}
    for name in ("g_parse_runs", "g_range_table", "__vx_canary", "lemma_canonical_order"):
        for i, l in enumerate(lines):
            if re.search(r"\bfn %s\b" % name, l):
                # function extends to the next line starting with "fn "/"pub fn"/"/// " at column 0, or "}" at col 0
                j = i + 1
                while j < len(lines) and not re.match(r"^(pub )?(proof )?fn |^pub proof fn |^/// |^} // verus", lines[j]):
                    j += 1
                ranges[name] = (i + 1, j)
    fb = {}
    try:
        for m in js["times-ms"]["smt"]["smt-run-module-times"]:
            for f in m.get("function-breakdown", []):
                fb.setdefault(f["function"].split("::")[-1], []).append(f)
    except Exception:
        pass
    for name, (a, b) in ranges.items():
        hits = [r for r in refut if a <= r[0] <= b]
        ok = [f.get("success", True) for f in fb.get(name, [])]
        st = "verified"
        if hits:
            st = "failed"
        elif not ok or not all(ok):
            st = "undecided"
        import hashlib
        src_of = {"g_parse_runs": ["min_key", "max_key", "value_ranges", "mode", "Mode"], "g_range_table": ["ofs_loop"]}.get(name, [])
        body_hash = hashlib.sha1("|".join((slices.get(k, {}).get("raw") or "") for k in src_of).encode()).hexdigest() if src_of else None
        res["functions"][name] = {"status": st, "reason": "\n".join(h[2] for h in hits[:2]), "time_ms": sum(f.get("time", 0) for f in fb.get(name, [])),
                                  "kinds": sorted({layer_t.refutation_kind(h[1], h[2]) for h in hits}), "body_hash": body_hash}
    # a refutation outside the named functions (a lemma of the prelude) leaves everything undecided
    un = [r for r in refut if not any(a <= r[0] <= b for (a, b) in ranges.values())]
    if un:
        res["error"] = "a lemma of the generator prelude no longer verifies:\n" + un[0][2]
    res["verified"] = js["verification-results"].get("verified")
    res["errors"] = js["verification-results"].get("errors")
    res["assumptions"] = layer_t.scan_assumptions(text)
    return res
