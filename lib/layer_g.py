"""Layer G — Verus on slices of the generator, taken verbatim from /repo/src on every run (DESIGN §3.2)."""
import json
import os
import re
from . import overlay, layer_t
from .common import REPO, VERIF, VX, run, Undecided

# the wrapper functions: signature and contract are ours, the body statements are the slices
WRAPPERS = r'''
verus! {
@MODE_ENUM@

/// parser/mod.rs: min_key / max_key / value_ranges / mode, from the key-sorted variant list
fn g_parse_runs<V>(values: &Vec<(i64, V)>) -> (res: (i64, i64, Mode))
    requires values@.len() >= 1, sorted_strict(keys(values@)),
    ensures
        res.0 as int == keys(values@)[0],
        res.1 as int == keys(values@).last(),
        match res.2 {
            // gapless <=> every value between the smallest and the largest discriminant is declared
            Mode::Gapless => forall|x: int| has(keys(values@), values@.len() as int, x) <==> (keys(values@)[0] <= x && x <= keys(values@).last()),
            // otherwise: at least two maximal runs, listed ascending, covering the discriminants exactly
            Mode::WithHoles { value_ranges } => value_ranges@.len() >= 2 && is_runs(value_ranges@, keys(values@)),
        },
{
    let ghost k = keys(values@);
@SLICE_min_key@
@SLICE_max_key@
    proof { assert(min_key as int == k[0]); assert(max_key as int == k.last()); }
@SLICE_value_ranges@
    proof {
        assert(is_runs(value_ranges@, k));
        if value_ranges@.len() == 1 { lemma_single_run_gapless(value_ranges@, k); }
    }
@SLICE_mode@
    (min_key, max_key, mode)
}

/// feature/table_range.rs: the running offset of the range table
fn g_range_table(value_ranges: &Vec<(i64, i64)>, with_offset: bool, repr: &Repr) -> (res: Vec<Entry>)
    requires
        forall|j: int| 0 <= j < value_ranges@.len() ==> (#[trigger] value_ranges@[j]).0 <= value_ranges@[j].1,
        before(value_ranges@, value_ranges@.len() as int) <= 65534,
    ensures
        res@.len() == value_ranges@.len(),
        // entry k is built from (start_k, end_k, start_k, number of variants before run k)
        forall|k: int| 0 <= k < res@.len() ==> (if with_offset {
                entry_off(#[trigger] res@[k]) == Some((value_ranges@[k].0 as int, value_ranges@[k].1 as int, value_ranges@[k].0 as int, before(value_ranges@, k)))
            } else {
                entry_plain(res@[k]) == Some((value_ranges@[k].0 as int, value_ranges@[k].1 as int))
            }),
{
@SLICE_ofs_loop@
    h
}

pub proof fn __vx_canary() ensures false { }
} // verus!
fn main() {}
'''

SLICE_SPEC = {
    "parser/mod.rs": [
        {"id": "min_key", "fn": "parse", "let": "min_key"},
        {"id": "max_key", "fn": "parse", "let": "max_key"},
        {"id": "value_ranges", "fn": "parse", "let": "value_ranges"},
        {"id": "mode", "fn": "parse", "let": "mode"},
    ],
    "generator/mod.rs": [{"id": "Mode", "enum": "Mode"}],
    "feature/table_range.rs": [{"id": "ofs_loop", "fn": "generate", "for_over": "value_ranges . iter ()", "with_preceding_lets": ["ofs", "hl", "h"]}],
    "parser/values.rs": [{"id": "sort_site", "fn": "parse_values", "let_with_next": "values", "must_contain": "collect"}],
}
# second file (own verdicts, so that a lost anchor here does not leave the slices above undecided)
DISC_SLICE_SPEC = [
    {"id": "disc_step", "fn": "parse_values", "stmt_prefix": "if let Some (", "must_contain": ". discriminant . take ()"},
    {"id": "disc_last", "fn": "parse_values", "stmt_prefix": "let mut last ="},
    {"id": "disc_values", "fn": "parse_values", "stmt_prefix": "let mut values = HashMap"},
    {"id": "pv_loop", "fn": "parse_values", "stmt_prefix": "for mut v in data . variants"},
    {"id": "pv_body", "fn": "parse_values", "stmt_prefix": "if let Data :: Enum ( data ) = data"},
]
DISC_WRAPPERS = r'''
verus! {
/// parser/values.rs, parse_values: the two initialisations before the loop over the variants
fn g_disc_init() -> (res: (HashMap<i64, (Ident, String)>, i64))
    ensures res.0@ == Map::<i64, (Ident, String)>::empty(), res.1 == -1,
{
    broadcast use vstd::std_specs::hash::group_hash_axioms;
@SLICE_disc_values@
@SLICE_disc_last@
    (values, last)
}

/// parser/values.rs, parse_values: the statement of the loop body that evaluates one variant's discriminant
fn g_disc_step(v0: Variant, values: &mut HashMap<i64, (Ident, String)>, last0: i64, name: String, sorted: FeatureSorted, span: Span) -> (last: i64)
    requires
        // the variant's discriminant is implicit or an (optionally negated) integer literal ...
        !(disc_abs(v0.discriminant) is Other),
        // ... whose compiler-assigned value lies within i64 ...
        i64::MIN <= rustc_val(disc_abs(v0.discriminant), last0 as int) <= i64::MAX,
        // ... and differs from every earlier one (rustc rejects duplicates itself)
        !old(values)@.contains_key(rustc_val(disc_abs(v0.discriminant), last0 as int) as i64),
        // sorted(value) requested: the declaration is in ascending order
        sorted.value ==> (old(values)@.len() == 0 || rustc_val(disc_abs(v0.discriminant), last0 as int) >= last0),
    ensures
        last as int == rustc_val(disc_abs(v0.discriminant), last0 as int),
        final(values)@ == old(values)@.insert(last, (v0.ident, name)),
{
    let mut v = v0;
    let mut last = last0;
    broadcast use vstd::std_specs::hash::group_hash_axioms;
@SLICE_disc_step@
    last
}

pub proof fn __vx_canary_disc() ensures false { }
} // verus!
fn main() {}
'''
DISC_FUNCS = {"g_disc_init": ["disc_values", "disc_last"], "g_disc_step": ["disc_step"], "lemma_disc_sequence": [], "lemma_trace_prefix": [], "__vx_canary_disc": []}

EXPECTED_SORT_SITE = ("let mut values = values . iter () . map (| (k , v) | (* k , v . clone ())) . collect ::< Vec < _ >> () ;",
                      "values . sort_by_key (| v | v . 0) ;")
EXPECTED_TEMPLATES = ["( # b1 ..= # e1 , ( # b1 ) . wrapping_sub ( # o1 ) )", "( # b1 ..= # e1 , () )"]


def _eval_functions(text, js, refut, names, src_of_map, slices, out):
    """status per named function of an assembled Verus file: refutations by line range + the per-function SMT breakdown"""
    import hashlib
    lines = text.split("\n")
    ranges = {}
    for name in names:
        for i, l in enumerate(lines):
            if re.search(r"\bfn %s\b" % name, l):
                # function extends to the next line starting with "fn "/"pub fn"/"/// " at column 0, or "}" at col 0
                j = i + 1
                while j < len(lines) and not re.match(r"^(pub )?(proof )?fn |^pub proof fn |^/// |^} // verus", lines[j]):
                    j += 1
                ranges[name] = (i + 1, j)
    fb = {}
    try:
        for m in js["times-ms"]["smt"]["smt-run-module-times"]:
            for f in m.get("function-breakdown", []):
                fb.setdefault(f["function"].split("::")[-1], []).append(f)
    except Exception:
        pass
    for name, (a, b) in ranges.items():
        hits = [r for r in refut if a <= r[0] <= b]
        ok = [f.get("success", True) for f in fb.get(name, [])]
        st = "verified"
        if hits:
            st = "failed"
        elif not ok or not all(ok):
            st = "undecided"
        src_of = src_of_map.get(name, [])
        body_hash = hashlib.sha1("|".join((slices.get(k, {}).get("raw") or "") for k in src_of).encode()).hexdigest() if src_of else None
        out[name] = {"status": st, "reason": "\n".join(h[2] for h in hits[:2]), "time_ms": sum(f.get("time", 0) for f in fb.get(name, [])),
                     "kinds": sorted({layer_t.refutation_kind(h[1], h[2]) for h in hits}), "body_hash": body_hash}
    return ranges


def _depth_of(hay, needle):
    i = hay.find(needle)
    if i < 0:
        return None
    return hay[:i].count("{") - hay[:i].count("}")


def run_disc(scratch, ov):
    """Second Verus file: the discriminant evaluation of parse_values (C11), sliced verbatim."""
    res = {"functions": {}, "problems": []}
    spec_path = os.path.join(scratch, "gspec_disc.json")
    with open(spec_path, "w") as f:
        json.dump({"items": DISC_SLICE_SPEC, "overlay": ov}, f)
    rc, out, err, dt = run([VX, "slice", os.path.join(REPO, "src", "parser", "values.rs"), spec_path])
    if rc != 0:
        res["problems"].append("vx slice failed on parser/values.rs: %s" % err[-600:])
        return res
    slices = json.loads(out)
    for k, v in slices.items():
        for e in v.get("errors", []):
            res["problems"].append("%s: %s" % (k, e))
    res["slices"] = {k: (v.get("raw") or "")[:1500] for k, v in slices.items() if k.startswith("disc_")}
    if res["problems"]:
        return res
    # threading (structural, on the flat token text): the step is a statement of the loop body itself, the loop is the only
    # loop over the variants, and nothing outside the three slices writes `last` or `values` before the sort site
    step, loop, body = (slices[k]["raw"] for k in ("disc_step", "pv_loop", "pv_body"))
    rest = body.replace(step, " ").replace(slices["disc_last"]["raw"], " ").replace(slices["disc_values"]["raw"], " ")
    rest_loop = loop.replace(step, " ")
    thr = []
    if _depth_of(loop, step) != 1:
        thr.append("the discriminant statement is not a direct statement of the `for mut v in data.variants` body")
    if body.count(step) != 1 or body.count(loop) != 1:
        thr.append("the loop / the discriminant statement is not unique in parse_values")
    if re.search(r"\blast\s*(=[^=]|\+=|-=)", rest) or re.search(r"& mut last\b", rest):
        thr.append("`last` is written outside the sliced statements")
    if re.search(r"\bvalues \. (insert|remove|clear|retain|entry|extend|drain|get_mut|iter_mut|values_mut)\b|& mut values\b", rest):
        thr.append("`values` is modified outside the sliced statements")
    if re.search(r"\b(continue|break|return)\b", rest_loop):
        thr.append("the loop body can skip the discriminant statement (continue / break / return)")
    res["threading"] = {"ok": not thr, "problems": thr,
                        "what": "g_disc_step's statement runs once per variant in declaration order; `last` and `values` are written only by the sliced statements"}
    text = open(os.path.join(VERIF, "contracts", "gen_disc_prelude.rs")).read() + DISC_WRAPPERS
    for k, v in slices.items():
        text = text.replace("@SLICE_%s@" % k, v.get("text") or "")
    path = os.path.join(scratch, "layer_g_disc.rs")
    with open(path, "w") as f:
        f.write(text)
    rc, js, err, dt = layer_t.verify_file(path)
    res["wall_s"] = dt
    if js is None or "verification-results" not in js:
        res["error"] = "verus produced no result: " + err[-3000:]
        return res
    refut, other = layer_t.classify(err)
    hard = [o for o in other if re.match(r"error(\[E\d+\])?:", o) and "rlimit" not in o.lower()]
    if hard:
        res["error"] = "verus/rustc rejected the assembled discriminant file:\n" + "\n".join(hard[:3])
        return res
    ranges = _eval_functions(text, js, refut, tuple(DISC_FUNCS), DISC_FUNCS, slices, res["functions"])
    un = [r for r in refut if not any(a <= r[0] <= b for (a, b) in ranges.values())]
    if un:
        res["error"] = "a lemma of the discriminant prelude no longer verifies:\n" + un[0][2]
    res["verified"] = js["verification-results"].get("verified")
    res["errors"] = js["verification-results"].get("errors")
    res["assumptions"] = layer_t.scan_assumptions(text)
    return res


def run_layer_g(scratch):
    entries = overlay.parse(os.path.join(VERIF, "contracts", "gen_overlay.vspec"))
    ov = {e.key: e.to_vx() for e in entries}
    # occurrence-numbered anchors: "@2 text"
    for o in ov.values():
        for sect in ("after_stmt", "before_stmt"):
            for a in o.get(sect, []):
                m = re.match(r"^(\d+) (.*)$", a["anchor"])
                if a["anchor"][:1].isdigit() and m:
                    a["occurrence"] = int(m.group(1))
                    a["anchor"] = m.group(2)
    slices = {}
    problems = []
    for rel, items in SLICE_SPEC.items():
        spec_path = os.path.join(scratch, "gspec_%s.json" % rel.replace("/", "_"))
        with open(spec_path, "w") as f:
            json.dump({"items": items, "overlay": ov}, f)
        rc, out, err, dt = run([VX, "slice", os.path.join(REPO, "src", rel), spec_path])
        if rc != 0:
            raise Undecided("vx slice failed on %s: %s" % (rel, err[-1000:]))
        d = json.loads(out)
        for k, v in d.items():
            slices[k] = v
            for e in v.get("errors", []):
                if k != "sort_site":
                    problems.append("%s: %s" % (k, e))
    text = open(os.path.join(VERIF, "contracts", "gen_prelude.rs")).read() + WRAPPERS
    for k, v in slices.items():
        if k == "sort_site":
            continue
        if k == "Mode":
            # visibility has no semantics here; Verus wants `pub` for the auto-generated variant predicates
            text = text.replace("@MODE_ENUM@", re.sub(r"^\s*pub \( crate\) enum", "pub enum", v.get("text") or ""))
        else:
            text = text.replace("@SLICE_%s@" % k, v.get("text") or "")
    left = re.findall(r"@SLICE_\w+@|@MODE_ENUM@", text)
    if left:
        problems.append("slices not found: %s" % left)
    res = {"problems": problems, "functions": {}, "templates": slices.get("ofs_loop", {}).get("quote_templates"),
           "slices": {k: (v.get("raw") or "")[:600] for k, v in slices.items()}}
    # structural obligations: the sort site (C17/C18) and the quote templates (recorded for the seam)
    vsrc = open(os.path.join(REPO, "src", "parser", "values.rs")).read()
    # the Vec collected from the HashMap must be sorted by key UNCONDITIONALLY: the statement that directly
    # follows the collect in the same block is the sort (slice of two adjacent statements)
    raw = re.sub(r"\s+", " ", (slices.get("sort_site", {}).get("raw") or ""))
    want = ("let mut values = values . iter ( ) . map ( | ( k , v ) | ( * k , v . clone ( ) ) ) . collect :: < Vec < _ > > ( ) ; "
            "values . sort_by_key ( | v | v . 0 ) ;")
    norm = lambda t: re.sub(r"\s+", "", t)
    site_ok = norm(raw) == norm(want)
    res["sort_site_ok"] = bool(site_ok)
    res["sort_site_found"] = raw[:400]
    res["hashmap_insert_checked"] = "values.insert(" in vsrc and "DuplicateValue" in vsrc
    res["templates_as_expected"] = (res["templates"] == EXPECTED_TEMPLATES)
    try:
        res["disc"] = run_disc(scratch, {k: v for k, v in ov.items() if k.startswith("disc_")})
    except Undecided:
        raise
    except Exception as e:  # machinery error: undecided for the obligations of this file only
        res["disc"] = {"functions": {}, "problems": ["run_disc: %r" % (e,)]}
    if problems:
        return res
    path = os.path.join(scratch, "layer_g.rs")
    with open(path, "w") as f:
        f.write(text)
    rc, js, err, dt = layer_t.verify_file(path)
    res["wall_s"] = dt
    if js is None or "verification-results" not in js:
        res["error"] = "verus produced no result: " + err[-3000:]
        return res
    refut, other = layer_t.classify(err)
    hard = [o for o in other if re.match(r"error(\[E\d+\])?:", o) and "rlimit" not in o.lower()]
    if hard:
        res["error"] = "verus/rustc rejected the assembled generator file:\n" + "\n".join(hard[:3])
        return res
    ranges = _eval_functions(text, js, refut, ("g_parse_runs", "g_range_table", "__vx_canary", "lemma_canonical_order"),
                             {"g_parse_runs": ["min_key", "max_key", "value_ranges", "mode", "Mode"], "g_range_table": ["ofs_loop"]}, slices, res["functions"])
    # a refutation outside the named functions (a lemma of the prelude) leaves everything undecided
    un = [r for r in refut if not any(a <= r[0] <= b for (a, b) in ranges.values())]
    if un:
        res["error"] = "a lemma of the generator prelude no longer verifies:\n" + un[0][2]
    res["verified"] = js["verification-results"].get("verified")
    res["errors"] = js["verification-results"].get("errors")
    res["assumptions"] = layer_t.scan_assumptions(text)
    return res
