"""Bounded stand-in for C12 / C13 / C14 (rejection properties).

The deciding code pattern-matches syn trees inside the proc-macro and reports through proc_macro_error;
neither installed verifier can take those symbolically (DESIGN §4 C12-C14), so no contract can decide
these properties.  What can be done inside this family's rules is a *bounded check with a stated
bound*: a designed, finite catalogue of declarations, each with the verdict the property demands
(must be rejected / must be accepted), decided by the real macro + rustc.  It is labelled bounded
(level `exploration`) and is never counted as proved.
"""
import itertools
import os
import re
from . import layer_i, expand
from .common import REPRS, run


class RawSpec:
    """a corpus module given as text; `reject` is the verdict the property demands"""

    def __init__(self, mod, body, reject, why, tags=()):
        self.mod = mod
        self.body = body
        self.reject = reject
        self.why = why
        self.tags = set(tags)

    def render(self):
        return "pub mod %s {\n    #[allow(unused_imports)] use enum_tools::EnumTools;\n%s\n}" % (self.mod, self.body)

    def describe(self):
        return {"mod": self.mod, "must_be_rejected": self.reject, "why": self.why, "decl": self.body.strip()[:300]}


def _enum(attrs, variants, repr_="i8", derive="#[derive(Clone, Copy, EnumTools)]", kind="enum", name="En", extra_repr=None):
    lines = ["    " + derive]
    for a in attrs:
        lines.append("    " + a)
    if repr_ is not None:
        lines.append("    #[repr(%s)]" % repr_)
    if extra_repr:
        lines.append("    " + extra_repr)
    lines.append("    pub %s %s { %s }" % (kind, name, variants))
    return "\n".join(lines)


# ---------------------------------------------------------------------------------------------
# C12: declarations outside the supported domain never compile
# ---------------------------------------------------------------------------------------------
def c12_specs(tier):
    out = []
    F = "#[enum_tools(as_str, try_from, iter, MIN, MAX)]"
    add = lambda n, body, why: out.append(RawSpec("n12_" + n, body, True, why, {"C12"}))
    add("struct", "    #[derive(Clone, Copy, EnumTools)]\n    %s\n    pub struct S { a: u8 }" % F, "a struct")
    add("unit_struct", "    #[derive(Clone, Copy, EnumTools)]\n    %s\n    pub struct S;" % F, "a unit struct")
    add("union", "    #[derive(Clone, Copy, EnumTools)]\n    %s\n    #[repr(C)]\n    pub union U { a: u8, b: i8 }" % F, "a union")
    add("no_variants", _enum([F], ""), "an enum without variants")
    add("tuple_field", _enum([F], "A, B(u8), C"), "a variant with a tuple field")
    add("struct_field", _enum([F], "A, B { x: u8 }"), "a variant with named fields")
    add("empty_tuple", _enum([F], "A, B()"), "a variant with an empty tuple")
    add("empty_braces", _enum([F], "A, B {}"), "a variant with empty braces")
    add("const_disc", "    pub const K: i8 = 3;\n" + _enum([F], "A = K, B = 9"), "a constant as discriminant")
    add("arith_disc", _enum([F], "A = 1 + 1, B = 9"), "an arithmetic expression as discriminant")
    add("cast_disc", _enum([F], "A = 1 as i8, B = 9"), "a cast as discriminant")
    add("paren_disc", _enum([F], "A = (1), B = 9"), "a parenthesised literal")
    add("paren_neg_disc", _enum([F], "A = -(1), B = 9"), "a negated parenthesised literal")
    add("double_neg", _enum([F], "A = - -1, B = 9"), "a doubly negated literal")
    add("not_disc", _enum([F], "A = !0, B = 9"), "a bitwise-not expression")
    add("byte_disc", _enum([F], "A = b'a', B = 120", repr_="u8"), "a byte literal")
    add("path_disc", _enum([F], "A = i8::MAX, B = 9"), "an associated constant as discriminant")
    add("block_disc", _enum([F], "A = { 1 }, B = 9"), "a block expression as discriminant")
    add("shift_disc", _enum([F], "A = 1 << 2, B = 9"), "a shift expression as discriminant")
    add("over_i64_u64", _enum([F], "A = 1, B = 9223372036854775808", repr_="u64"), "a value above i64::MAX (u64)")
    add("over_i64_u128", _enum([F], "A = 1, B = 18446744073709551616", repr_="u128"), "a value above i64::MAX (u128)")
    add("under_i64_i128", _enum([F], "A = -9223372036854775809, B = 9", repr_="i128"), "a value below i64::MIN (i128)")
    add("implicit_over_i64", _enum([F], "A = 9223372036854775807, B", repr_="i128"), "an implicit value after i64::MAX")
    add("no_repr", _enum([F], "A, B", repr_=None), "no repr attribute")
    add("dup_repr", _enum([F], "A, B", extra_repr="#[repr(i8)]"), "a duplicated repr attribute")
    add("two_reprs", _enum([F], "A, B", extra_repr="#[repr(u8)]"), "two different repr attributes")
    add("repr_c", _enum([F], "A, B", repr_="C"), "repr(C)")
    add("repr_c_u8", _enum([F], "A, B", repr_="C, u8"), "repr(C, u8)")
    add("repr_u8_c", _enum([F], "A, B", repr_="u8, C"), "repr(u8, C)")
    add("repr_align", _enum([F], "A, B", repr_="align(4)"), "repr(align)")
    add("repr_transparent", "    #[derive(Clone, Copy, EnumTools)]\n    %s\n    #[repr(transparent)]\n    pub enum En { A }" % F, "repr(transparent)")
    if tier != "quick":
        vs = ", ".join("V%d" % i for i in range(65535))
        add("n65535", _enum(["#[enum_tools(try_from, MIN, MAX)]"], vs, repr_="u16"), "65535 variants")
    # controls: the closest declarations inside the domain must still be accepted
    ok = lambda n, body, why: out.append(RawSpec("n12_ok_" + n, body, False, why, {"C12", "control"}))
    ok("neg_lit", _enum([F], "A = -1, B = 9"), "a negated literal")
    ok("suffix", _enum([F], "A = 1i8, B = 0x7f"), "a suffixed and a hex literal")
    ok("i64max", _enum([F], "A = 1, B = 9223372036854775807", repr_="u64"), "i64::MAX on u64")
    ok("i64min", _enum([F], "A = -9223372036854775808, B = 9", repr_="i128"), "i64::MIN on i128")
    return out


# ---------------------------------------------------------------------------------------------
# C13: invalid or contradictory configuration is rejected
# ---------------------------------------------------------------------------------------------
def c13_specs(tier):
    out = []
    G = "A, B, C"            # gapless
    H = "A = 0, B = 1, C = 9"  # with holes
    n = [0]

    def add(attrs, why, variants=G, reject=True):
        n[0] += 1
        out.append(RawSpec("n13_%s%d" % ("" if reject else "ok_", n[0]), _enum(attrs, variants), reject, why, {"C13"} | (set() if reject else {"control"})))

    for shape in (G, H):
        add(["#[enum_tools(foo)]"], "unknown feature", shape)
        add(["#[enum_tools(as_str, foo)]"], "unknown feature next to a known one", shape)
        add(["#[enum_tools(as_str)]", "#[enum_tools(Foo)]"], "unknown feature in a second attribute", shape)
        add(["#[enum_tools(asstr)]"], "misspelled feature", shape)
        add(["#[enum_tools(as_str(bar = \"x\"))]"], "unknown parameter", shape)
        add(["#[enum_tools(as_str(mode = \"table\", nam = \"x\"))]"], "misspelled parameter", shape)
        add(["#[enum_tools(into(mode = \"table\"))]"], "parameter of another feature", shape)
        add(["#[enum_tools(Debug(name = \"x\"))]"], "parameter on a trait feature", shape)
        add(["#[enum_tools(as_str, as_str)]"], "repeated feature", shape)
        add(["#[enum_tools(as_str)]", "#[enum_tools(as_str(mode = \"table\"))]"], "feature repeated across attributes", shape)
        add(["#[enum_tools(as_str(name = \"a\", name = \"b\"))]"], "repeated parameter", shape)
        add(["#[enum_tools(as_str(mode = \"fast\"))]"], "undocumented mode", shape)
        add(["#[enum_tools(as_str(mode = \"Table\"))]"], "mode with wrong case", shape)
        add(["#[enum_tools(from_str(mode = \"range\"))]"], "mode of another feature", shape)
        add(["#[enum_tools(FromStr(mode = \"\"))]"], "empty mode", shape)
        add(["#[enum_tools(iter(mode = \"inline\"))]"], "undocumented iter mode", shape)
        add(["#[enum_tools(as_str(vis = \"public\"))]"], "undocumented visibility", shape)
        add(["#[enum_tools(as_str(vis = \"pub(super)\"))]"], "visibility outside the documented three", shape)
        add(["#[enum_tools(as_str(vis = \"pub (crate)\"))]"], "visibility with different spacing", shape)
        add(["#[enum_tools(as_str(mode = 1))]"], "mode of the wrong kind (integer)", shape)
        add(["#[enum_tools(as_str(name = true))]"], "name of the wrong kind (bool)", shape)
        add(["#[enum_tools(as_str(name))]"], "name without a value", shape)
        add(["#[enum_tools(as_str(mode))]"], "mode without a value", shape)
        add(["#[enum_tools(as_str(vis = 'p'))]"], "vis of the wrong kind (char)", shape)
        add(["#[enum_tools(sorted(name = \"x\"))]"], "sorted(name) with a value", shape)
        add(["#[enum_tools(sorted(values))]"], "misspelled sorted parameter", shape)
        add(["#[enum_tools(iter(struct_name = 1))]"], "struct_name of the wrong kind", shape)
        add(["#[enum_tools(range)]"], "range without iter", shape)
        add(["#[enum_tools(range, names)]"], "range without iter (names present)", shape)
        add(["#[enum_tools(iter(mode = \"table_inline\"), range)]"], "range with iter table_inline", shape)
        add(["#[enum_tools(range)]", "#[enum_tools(iter(mode = \"table_inline\"))]"], "range with iter table_inline, split attributes", shape)
        add(["#[enum_tools = \"as_str\"]"], "name-value form of the attribute", shape)
        add(["#[enum_tools]"], "bare attribute", shape)
        add(["#[enum_tools(\"as_str\")]"], "string literal instead of a feature", shape)
        add(["#[enum_tools(as_str = \"x\")]"], "feature given as name-value", shape)
        add(["#[enum_tools(as_str::x)]"], "feature given as a path", shape)
    add(["#[enum_tools(iter(mode = \"range\"))]"], "iter range mode on an enum with holes", H)
    add(["#[enum_tools(iter(mode = \"range\"), range)]"], "iter range mode + range on an enum with holes", H)
    # variant-level attributes
    for shape_tag, tail in (("g", "B, C"), ("h", "B = 5, C = 9")):
        for attr, why in (("#[enum_tools(foo)]", "unknown variant attribute"), ("#[enum_tools(rename)]", "rename without a value"),
                          ("#[enum_tools(rename = 1)]", "rename with an integer"), ("#[enum_tools(rename = b\"x\")]", "rename with a byte string"),
                          ("#[enum_tools(name = \"x\")]", "name instead of rename"), ("#[enum_tools = \"x\"]", "name-value form"),
                          ("#[enum_tools]", "bare variant attribute"), ("#[enum_tools(rename = \"a\", rename = \"b\")]", "two renames in one attribute"),
                          ("#[enum_tools(rename(\"x\"))]", "rename as a list"), ("#[enum_tools(as_str)]", "a feature on a variant"),
                          ("#[enum_tools(Rename = \"x\")]", "rename with wrong case")):
            n[0] += 1
            out.append(RawSpec("n13_v%d" % n[0], _enum(["#[enum_tools(as_str, from_str)]"], "%s A, %s" % (attr, tail)), True, "variant level: " + why, {"C13", "variant"}))
    # controls
    add(["#[enum_tools(as_str(mode = \"table\", name = \"x\", vis = \"pub(crate)\"))]"], "all documented parameters", G, reject=False)
    add(["#[enum_tools(iter, range)]"], "range with iter", H, reject=False)
    add(["#[enum_tools(iter(mode = \"range\"), range)]"], "iter range on a gapless enum", G, reject=False)
    add(["#[enum_tools(sorted(name, value), as_str)]"], "sorted with both flags", G, reject=False)
    n[0] += 1
    out.append(RawSpec("n13_ok_v%d" % n[0], _enum(["#[enum_tools(as_str)]"], "#[enum_tools(rename = \"x y\")] A, B"), False, "variant level: rename with a string", {"C13", "control"}))
    return out


# ---------------------------------------------------------------------------------------------
# C14: sorted(name) / sorted(value) compile iff strictly sorted
# ---------------------------------------------------------------------------------------------
def c14_specs(tier):
    out = []
    k = 0
    # four variants; identifiers/renames and discriminants chosen so that name order and value order differ
    base = [("Apple", 1, None), ("Berry", 5, None), ("Cherry", 2, "aa-cherry"), ("Date", 9, None)]
    perms = list(itertools.permutations(range(4)))
    if tier == "quick":
        perms = perms[::1]
    for perm in perms:
        vs = [base[i] for i in perm]
        names = [(r if r is not None else ident) for ident, d, r in vs]
        vals = [d for ident, d, r in vs]
        name_sorted = all(a.encode() < b.encode() for a, b in zip(names, names[1:]))
        val_sorted = all(a < b for a, b in zip(vals, vals[1:]))
        decl = ", ".join((("#[enum_tools(rename = \"%s\")] " % r) if r else "") + "%s = %d" % (ident, d) for ident, d, r in vs)
        for feat, ok in (("sorted(value)", val_sorted), ("sorted(name)", name_sorted), ("sorted(name, value)", name_sorted and val_sorted), (None, True)):
            k += 1
            attrs = ["#[enum_tools(as_str, %s)]" % feat] if feat else ["#[enum_tools(as_str)]"]
            out.append(RawSpec("n14_%d" % k, _enum(attrs, decl, repr_="i16"), not ok,
                               "%s on declaration order %s" % (feat or "no sorted", [v[0] for v in vs]), {"C14"} | (set() if not ok else {"control"})))
    # implicit discriminants (always ascending by value), equal names are not strictly sorted, negative values
    extra = [
        ("sorted(value)", "A, B, C", False), ("sorted(name)", "A, B, C", False), ("sorted(name)", "B, A, C", True), ("sorted(value)", "B, A, C", False),
        ("sorted(value)", "A = -3, B = -2, C = 0", False), ("sorted(value)", "A = -2, B = -3, C = 0", True),
        ("sorted(value)", "A = 5, B, C = 3", True), ("sorted(value)", "A = 5, B, C = 7", False),
        ("sorted(name)", "#[enum_tools(rename = \"x\")] A, #[enum_tools(rename = \"x\")] B", True),
        ("sorted(name)", "#[enum_tools(rename = \"b\")] A, #[enum_tools(rename = \"a\")] B", True),
        ("sorted(name)", "#[enum_tools(rename = \"a\")] B, #[enum_tools(rename = \"b\")] A", False),
        ("sorted(name)", "a, B", True), ("sorted(name)", "B, a", False),       # byte-wise: 'B' < 'a'
        ("sorted(name, value)", "A = 1, B = 0", True), ("sorted(name, value)", "B = 0, A = 1", True), ("sorted(name, value)", "A = 0, B = 1", False),
        ("sorted(value)", "A = 1", False), ("sorted(name)", "A = 1", False),
    ]
    for feat, decl, reject in extra:
        k += 1
        out.append(RawSpec("n14_%d" % k, _enum(["#[allow(non_camel_case_types)]", "#[enum_tools(as_str, %s)]" % feat], decl, repr_="i16"), reject,
                           "%s on `%s`" % (feat, decl), {"C14"} | (set() if reject else {"control"})))
    return out


def run_negative(scratch, specs, name="neg"):
    """{mod: {"rejected": bool, "message": str}} decided by the real macro + rustc (cargo check)"""
    rej, err = layer_i.compile_only(scratch, specs, name=name, rounds=6)
    res = {"error": err, "modules": {}}
    for s in specs:
        res["modules"][s.mod] = {"rejected": s.mod in rej, "message": (rej.get(s.mod) or "")[:500], "must_be_rejected": s.reject, "why": s.why,
                                 "decl": s.body.strip()[:400]}
    return res
