"""Shared, content-addressed results of the expensive layers.

Every check rebuilds from /repo's current working tree; because one run of a layer serves several
properties, its result is stored under a key that is the hash of /repo's sources and of the
verification machinery itself (lib/, contracts/, harness/, vx/src).  A changed tree or changed
machinery therefore never sees a stale result.  VERIF_NO_CACHE=1 disables the store.
"""
import os
import time
from . import layer_t, layer_i, layer_r, layer_g, layer_s, layer_k, layer_n, layer_m, corpus
from .common import tree_hash, cache_get, cache_put, Scratch, REPRS, log


def _shared_target(sc):
    return os.path.join(sc, "target")


def _transient(r):
    """a result that carries a tool failure (killed compiler, harness defect, missing output) is never
    stored: the next run must try again"""
    if not isinstance(r, dict):
        return True
    if r.get("build_error") or r.get("run_error") or r.get("error"):
        return True
    inst = r.get("instances")
    if isinstance(inst, dict) and (inst.get("build_error") or inst.get("run_error")):
        return True
    if r.get("undecided"):
        return True
    return False


def get_t(tier):
    key = tree_hash(("T", tier))
    r = cache_get("layer_t", key)
    if r is not None:
        r["cache_hit"] = True
        return r
    t0 = time.time()
    with Scratch("vf-t-") as sc:
        r = layer_t.run_layer_t(sc, None, jobs=8)
        for m in r["modules"].values():
            m.pop("path", None)
        if tier == "thorough":
            sc32 = os.path.join(sc, "p32")
            os.makedirs(sc32, exist_ok=True)
            r32 = layer_t.run_layer_t(sc32, None, jobs=8, ptr_bytes=4, target=os.path.join(sc, "target"))
            for k, m in r32["modules"].items():
                m.pop("path", None)
                r["modules"]["p32:" + k] = m
            r["undecided"] += r32["undecided"]
    r["wall_s"] = time.time() - t0
    r["cache_hit"] = False
    if not _transient(r):
        cache_put("layer_t", key, r)
    return r


def quick_instance_corpus(seed):
    """the quick tier: every repr with the patterns that exercise the seam (negative later runs,
    runs at the type limits), full pattern set for a spread of widths"""
    full = ("i8", "u8", "i16", "u64", "i128", "isize")
    out = []
    for s in corpus.instance_corpus("quick", seed):
        pats = s.tags
        if s.repr in full:
            if "h_300" in pats or "g_300" in pats:
                if s.repr not in ("i16",):
                    continue
            out.append(s)
        elif "randcfg" in pats:
            out.append(s)
        elif pats & {"h_neg_later", "h_lo_start", "g_hi", "rand", "h_far"}:
            if "ALL_TABLE" in pats or "ALL_AUTO" in pats or "rand" in pats:
                out.append(s)
    return out


def known_finding_specs():
    """declarations that exhibit a recorded known finding (known_findings.json)"""
    from .corpus import EnumSpec, Variant
    vs = [Variant("MAX", 0, "0"), Variant("B", 1, "1"), Variant("MIN", 2, "2")]
    return [EnumSpec("k_f7_variant_named_min_max", "u8", vs, ["MIN", "MAX", "try_from", "into"], ident="En", tags={"known", "F7"})]


def get_i(tier, seed):
    key = tree_hash(("I", tier, seed))
    r = cache_get("layer_i", key)
    if r is not None:
        r["cache_hit"] = True
        return r
    t0 = time.time()
    specs = quick_instance_corpus(seed) if tier == "quick" else corpus.instance_corpus("thorough", seed)
    specs = specs + known_finding_specs()
    with Scratch("vf-i-") as sc:
        r = layer_i.run_instances(sc, specs, seed, tier)
    r.pop("mods_info", None)
    r["specs"] = {s.mod: s.describe() for s in specs}
    r["decls"] = {s.mod: s.render() for s in specs} if len(specs) < 2000 else {}
    r["wall_s"] = time.time() - t0
    r["cache_hit"] = False
    if not _transient(r):
        cache_put("layer_i", key, r)
    return r


def get_r(tier="quick"):
    key = tree_hash(("R",))
    r = cache_get("layer_r", key)
    if r is not None:
        r["cache_hit"] = True
        return r
    with Scratch("vf-r-") as sc:
        r = layer_r.run_layer_r(sc)
    r["cache_hit"] = False
    if not _transient(r):
        cache_put("layer_r", key, r)
    return r


def get_g(tier="quick"):
    key = tree_hash(("G",))
    r = cache_get("layer_g", key)
    if r is not None:
        r["cache_hit"] = True
        return r
    t0 = time.time()
    with Scratch("vf-g-") as sc:
        r = layer_g.run_layer_g(sc)
    r["wall_s"] = time.time() - t0
    r["cache_hit"] = False
    if not _transient(r):
        cache_put("layer_g", key, r)
    return r


def get_s(tier, seed):
    key = tree_hash(("S", tier, seed))
    r = cache_get("layer_s", key)
    if r is not None:
        r["cache_hit"] = True
        return r
    t0 = time.time()
    with Scratch("vf-s-") as sc:
        r = layer_s.run_layer_s(sc, tier, seed)
    r["wall_s"] = time.time() - t0
    r["cache_hit"] = False
    if not _transient(r):
        cache_put("layer_s", key, r)
    return r


def get_c11(tier, seed):
    key = tree_hash(("C11", tier, seed))
    r = cache_get("layer_c11", key)
    if r is not None:
        r["cache_hit"] = True
        return r
    t0 = time.time()
    specs = corpus.c11_specs(tier, seed)
    with Scratch("vf-c11-") as sc:
        r = layer_i.run_instances(sc, specs, seed, tier, name="c11")
    r.pop("mods_info", None)
    r["specs"] = {s.mod: s.describe() for s in specs}
    r["decls"] = {s.mod: s.render() for s in specs} if len(specs) < 400 else {s.mod: s.render() for s in specs if len(s.variants) < 500}
    r["wall_s"] = time.time() - t0
    r["cache_hit"] = False
    if not _transient(r):
        cache_put("layer_c11", key, r)
    return r


def get_k(tier="quick"):
    key = tree_hash(("K", tier))
    r = cache_get("layer_k", key)
    if r is not None:
        r["cache_hit"] = True
        return r
    with Scratch("vf-k-") as sc:
        r = layer_k.run_layer_k(sc, tier, jobs=12)
    r["cache_hit"] = False
    if not _transient(r):
        cache_put("layer_k", key, r)
    return r


def get_n(pid, tier):
    key = tree_hash(("N", pid, tier))
    r = cache_get("layer_n", key)
    if r is not None:
        r["cache_hit"] = True
        return r
    t0 = time.time()
    specs = {"C12": layer_n.c12_specs, "C13": layer_n.c13_specs, "C14": layer_n.c14_specs}[pid](tier)
    with Scratch("vf-n-") as sc:
        r = layer_n.run_negative(sc, specs, name="neg_" + pid.lower())
    r["wall_s"] = time.time() - t0
    r["cache_hit"] = False
    if not _transient(r):
        cache_put("layer_n", key, r, keep=8)
    return r


def get_m(tier, seed):
    key = tree_hash(("M", tier, seed))
    r = cache_get("layer_m", key)
    if r is not None:
        r["cache_hit"] = True
        return r
    t0 = time.time()
    with Scratch("vf-m-") as sc:
        r = layer_m.run_layer_m(sc, tier, seed, jobs=8)
    r["wall_s"] = time.time() - t0
    r["cache_hit"] = False
    if not _transient(r):
        cache_put("layer_m", key, r)
    return r
