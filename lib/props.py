"""Per-property check definitions: which layers contribute obligations, the level claimed, and the
assumption / trusted-base statements written into the evidence."""
from . import driver

TRUSTED_COMMON = [
    "rustc (the real compiler builds the macro from /repo's working tree and expands the corpus)",
    "Rust semantics: `enum as repr` is the discriminant; transmute int->fieldless enum is valid iff the value is a declared discriminant (rule R1/R2)",
    "Verus 0.2026.09.13 + bundled Z3; vstd specifications of core (RangeInclusive, slice::Iter, Option, wrapping_add/sub, casts)",
    "vx extraction tool and rewrite rules R1-R9 (DESIGN §3.1); guarded by the uniformity obligation and by layer I on the unrewritten expansion",
]

ASSUME_SEAM = ("seam (DESIGN §3.4): layer T assumes the tables/constants of an arbitrary enum are well formed (axiom_wf: __RANGES lists the maximal runs "
               "ascending with offset wrap(start - variants before), __ENUM/__NAME list variants/names ascending, MIN/MAX are the extremes, "
               "<= 65534 variants); this is checked per instance by layer I (bounded over enums, exhaustive over token shapes) and for the generator arithmetic by layer G")

ASSUME_SHIMS = [
    "assume_specification RangeInclusive::start/end return the bounds; Option::unwrap_unchecked requires is_some (that IS the obligation)",
    "shim __vx_find: textbook `find` (first match), body verified, assumed equal to core's Iterator::find on slice::Iter",
    "shim __vx_enumerate: `(0..usize::MAX).zip(it)`, body verified, assumed equal to core's enumerate on slice::Iter",
    "shim __vx_write_str: Formatter::write_str appends exactly its argument (assumed; sink errors out of scope)",
    "str equality `s == *n` is byte-wise equality of the views (vstd)",
    "machine integers are modelled exactly (fixed width, wrapping ops per vstd, truncating casts via bit_vector lemmas); usize is 64-bit in the quick tier, 32- and 64-bit in the thorough tier",
]

PROPS = {
    "C01": {
        "level": "proof",
        "layers": ["T", "I"],
        "explanation": "try_from/TryFrom/into/Into bodies taken from the real expansion are verified by Verus against `res == Some(E(n)) iff n is a declared discriminant` for an arbitrary enum of each shape and each of the 12 reprs; round-trip corollaries are verified callers; the table/constant emission is checked on corpus instances over the full repr domain (8/16-bit) or boundary+sampled values (wider).",
    },
    "C03": {
        "level": "proof",
        "layers": ["T", "I"],
        "explanation": "table-mode as_str (both shapes) is verified to return names()[rank(self)] including the wrapping_sub/unsigned-cast index arithmetic for every repr; Display/Debug/IntoStr are verified to pass exactly that string on. match-mode arms and the __NAME table contents are per-enum data and are checked exhaustively over variants on corpus instances (bounded over enums).",
    },
    "C04": {
        "level": "proof",
        "layers": ["T", "I"],
        "explanation": "table-mode from_str/FromStr (both shapes) verified: Some(e) iff s equals a name, e is the first variant in discriminant order with that name, None iff no name equals s; the gapless index->variant transmute argument is proved a variant. match mode is per-enum and is checked on corpus instances with every name, single-edit neighbours, case variants, whitespace and renamed identifiers (bounded).",
    },
    "C05": {
        "level": "proof",
        "layers": ["T", "I"],
        "explanation": "next/next_back bodies (gapless and with holes) verified against `least variant greater than self / None iff self is the maximum` plus rank(next) == rank+1, for arbitrary run tables including runs touching the type limits; MIN/MAX emission checked on instances.",
    },
}


def collect(pid, tier, seed):
    p = PROPS[pid]
    obs, metas = [], []
    if "T" in p["layers"]:
        o, m = driver.collect_T(pid, tier)
        m["_layer"] = "T (verus on real generated bodies)"
        obs += o
        metas.append(m)
    if "I" in p["layers"]:
        o, m = driver.collect_I(pid, tier, seed, include_rejected=p.get("rejected", False))
        m["_layer"] = "I (instances, native, bounded)"
        obs += o
        metas.append(m)
    return obs, metas
