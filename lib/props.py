"""Per-property check definitions: which layers contribute obligations, the level claimed, and the
assumption / trusted-base statements written into the evidence."""
from . import driver

TRUSTED_COMMON = [
    "rustc (the real compiler builds the macro from /repo's working tree and expands the corpus)",
    "Rust semantics: `enum as repr` is the discriminant; transmute int->fieldless enum is valid iff the value is a declared discriminant (rule R1/R2)",
    "Verus 0.2026.09.13 + bundled Z3; vstd specifications of core (RangeInclusive, slice::Iter, Option, wrapping_add/sub, casts)",
    "vx extraction tool and rewrite rules R1-R9 (DESIGN §3.1); guarded by the uniformity obligation and by layer I on the unrewritten expansion",
]

ASSUME_SEAM = ("seam (DESIGN §3.4): layer T assumes the tables/constants of an arbitrary enum are well formed (axiom_wf: __RANGES lists the maximal runs "
               "ascending with offset wrap(start - variants before), __ENUM/__NAME list variants/names ascending, MIN/MAX are the extremes, "
               "<= 65534 variants); this is checked per instance by layer I (bounded over enums, exhaustive over token shapes) and for the generator arithmetic by layer G")

ASSUME_SHIMS = [
    "assume_specification RangeInclusive::start/end return the bounds; Option::unwrap_unchecked requires is_some (that IS the obligation)",
    "shim __vx_find: textbook `find` (first match), body verified, assumed equal to core's Iterator::find on slice::Iter",
    "shim __vx_enumerate: `(0..usize::MAX).zip(it)`, body verified, assumed equal to core's enumerate on slice::Iter",
    "shim __vx_write_str: Formatter::write_str appends exactly its argument (assumed; sink errors out of scope)",
    "str equality `s == *n` is byte-wise equality of the views (vstd)",
    "machine integers are modelled exactly (fixed width, wrapping ops per vstd, truncating casts via bit_vector lemmas); usize is 64-bit in the quick tier, 32- and 64-bit in the thorough tier",
]

DEFAULT_NOTE = ("assumes the table well-formedness seam (checked per instance, bounded, and for the generator arithmetic by layer G), vstd's specifications of core, "
                "the listed shim contracts for std iterator adapters, rustc, and rules R1-R9 of the extraction")
DEFAULT_TECHNIQUE = ("contract-based deductive verification (Verus) of function bodies extracted mechanically from the real macro expansion; "
                     "bounded native instance checks for the seam and for replay")

ENGINES = [
    {"name": "layer-T", "path": "lib/layer_t.py", "serves_properties": ["C01", "C02", "C03", "C04", "C05", "C06", "C07", "C08"],
     "kind_free_text": "Verus on function bodies extracted from the real macro expansion (vx, rules R1-R9) with contracts from contracts/overlay.vspec; parametric in the enum, one file per repr x cell"},
    {"name": "layer-I", "path": "lib/layer_i.py", "serves_properties": ["C01", "C02", "C03", "C04", "C05", "C06", "C07", "C08"],
     "kind_free_text": "real expansion of corpus enums compiled by rustc and executed natively against a declaration-derived oracle (bounded; supplies the emission seam and replay inputs)"},
    {"name": "layer-S", "path": "lib/layer_s.py", "serves_properties": ["C06", "C07", "C08", "C09", "C10", "C15", "C16", "C17", "C18", "C19"],
     "kind_free_text": "structural obligations on the real expansion AST (vx) and finite catalogues decided by rustc"},
    {"name": "layer-N", "path": "lib/layer_n.py", "serves_properties": ["C12", "C13", "C14"],
     "kind_free_text": "bounded stand-in: designed catalogue of declarations with the verdict (reject/accept) the property demands, decided by the real macro + rustc"},
    {"name": "layer-M", "path": "lib/layer_m.py", "serves_properties": ["C02"],
     "kind_free_text": "the native oracle driver executed under Miri for 8 small enums: concrete witnesses for undefined behaviour without behavioural symptom (uninitialised reads, invalid enum values); bounded"},
    {"name": "layer-K", "path": "lib/layer_k.py", "serves_properties": ["C01", "C02", "C03", "C05", "C06", "C07"],
     "kind_free_text": "Kani on the unmodified expansion of small corpus enums: full input domain per enum, loops fully unwound, built-in UB checks (invalid enum value, OOB, overflow)"},
    {"name": "layer-R", "path": "lib/layer_r.py", "serves_properties": ["C06", "C07", "C09", "C10"],
     "kind_free_text": "Kani on the real Features::resolve (#[path]-included sources), fully symbolic configuration, loop-free => complete"},
    {"name": "layer-G", "path": "lib/layer_g.py", "serves_properties": ["C01", "C03", "C05", "C07", "C17", "C18"],
     "kind_free_text": "Verus on slices of the generator taken verbatim from /repo/src on every run (runs computation, range-table offsets, canonical order)"},
]

PROPS = {
    "C01": {
        "level": "proof",
        "claim": "Verus proves the real try_from/TryFrom/into/Into bodies against the property's own statement for every enum of each shape and repr (unbounded over enums and arguments); the emission of the tables those proofs assume is checked per corpus instance (bounded, labelled so)",
        "layers": ["T", "G", "K", "I"],
        "explanation": "try_from/TryFrom/into/Into bodies taken from the real expansion are verified by Verus against `res == Some(E(n)) iff n is a declared discriminant` for an arbitrary enum of each shape and each of the 12 reprs; round-trip corollaries are verified callers; the table/constant emission is checked on corpus instances over the full repr domain (8/16-bit) or boundary+sampled values (wider).",
    },
    "C03": {
        "level": "proof",
        "claim": 'Verus proves table-mode as_str and the Display/Debug/IntoStr forwarders for every enum, shape and repr incl. the index arithmetic; match-mode arms are per-enum data checked exhaustively per corpus instance (bounded)',
        "layers": ["T", "G", "K", "I"],
        "explanation": "table-mode as_str (both shapes) is verified to return names()[rank(self)] including the wrapping_sub/unsigned-cast index arithmetic for every repr; Display/Debug/IntoStr are verified to pass exactly that string on. match-mode arms and the __NAME table contents are per-enum data and are checked exhaustively over variants on corpus instances (bounded over enums).",
    },
    "C04": {
        "level": "proof",
        "claim": 'Verus proves table-mode from_str/FromStr (first match in discriminant order, None iff no name matches) for every enum, shape and repr; match mode checked per corpus instance with designed probe strings (bounded)',
        "layers": ["T", "I"],
        "explanation": "table-mode from_str/FromStr (both shapes) verified: Some(e) iff s equals a name, e is the first variant in discriminant order with that name, None iff no name equals s; the gapless index->variant transmute argument is proved a variant. match mode is per-enum and is checked on corpus instances with every name, single-edit neighbours, case variants, whitespace and renamed identifiers (bounded).",
    },
    "C05": {
        "level": "proof",
        "claim": 'Verus proves next/next_back (both shapes) return the least greater / greatest smaller variant and None exactly at MAX/MIN for arbitrary run tables incl. type-limit wrap; MIN/MAX emission per corpus instance (bounded)',
        "layers": ["T", "G", "K", "I"],
        "explanation": "next/next_back bodies (gapless and with holes) verified against `least variant greater than self / None iff self is the maximum` plus rank(next) == rank+1, for arbitrary run tables including runs touching the type limits; MIN/MAX emission checked on instances.",
    },
    "C02": {
        "level": "proof",
        "claim": 'every unsafe site of the generated code (transmute, unwrap_unchecked, assume_init) and every index/arithmetic step is a discharged Verus precondition for an arbitrary enum; an unsafe block without a verified body makes the check undecided',
        "layers": ["T", "K", "M", "I", "U"],
        "explanation": "C02 is the set of preconditions generated while proving the other properties: every transmute (rule R1: `requires is_variant`), every unwrap_unchecked (`requires is_some`), every MaybeUninit::assume_init (`requires initialised`, with write modelled by its vstd ghost state), every index/slice bound and every +1/-1/len arithmetic step in the real generated bodies is a Verus obligation, for an arbitrary enum of each shape and repr; the next_and_back iterator's representation invariant carries the argument over any history. Guard: every function with an unsafe block in every corpus expansion must be token-identical to a verified body. Panics and invalid values are also looked for natively on corpus instances (bounded).",
        "assumptions": ["uninitialised reads: decided by layer T for an arbitrary enum; witnessed concretely only on the Miri corpus (Kani's uninit instrumentation ICEs on this code)"],
    },
    "C06": {
        "level": "proof",
        "claim": 'representation-invariant proof for the next_and_back iterator (holds after any history) and verified constructor + wrapper contracts for the std-backed modes; std iterators are trusted by stated contracts; histories on instances are a bounded complement',
        "layers": ["T", "R", "K", "I", "F"],
        "explanation": "next_and_back mode: data-structure proof — iter() establishes view == all variants ascending, next/next_back/size_hint/len are verified to pop the front/back of the abstract view and preserve the representation invariant, so the claim holds after any finite history and fusedness is `len == 0 ==> None, unchanged`. range/table/table_inline modes: the constructor is verified to build the std iterator over exactly the ascending variants (transmute closure precondition, __ENUM well-formedness) and each wrapper method is verified against the same pop-front/pop-back/nth/last/len contract given the assumed contract of the std iterator; fold/rfold are checked structurally to forward verbatim. Defaults of Iterator (collect, count, rev, ...) are std's. Instances are run natively against a VecDeque model over designed + seeded histories (bounded).",
        "assumptions": ["std's Copied<slice::Iter>, Map<RangeInclusive>, array::IntoIter are correct double-ended exact-size fused iterators over their source (contracts stated in contracts/shims.rs.tmpl); "
                        "the size_hint clause is checked by Kani on the real core types for all 12 integer types in every run, the pop-front/pop-back/nth/nth_back/last/len clauses for small sources (slices <= 4, u8/i8 ranges <= 6 items, arrays of 3) in the thorough tier — bounded, the general statement stays an assumption",
                        "Iterator/DoubleEndedIterator default methods are correct for any conforming next/next_back/size_hint"],
    },
    "C07": {
        "level": "proof",
        "claim": "Verus proves all five uniform range() bodies against `view == variants between a and b, empty if a > b, no panic` for every enum, shape and repr; the iterator behaviour afterwards is C06's",
        "layers": ["T", "G", "R", "K", "I", "F"],
        "explanation": "all five uniform range() bodies (gapless x {range, next_and_back, table}, holes x {next_and_back, table}) verified: result view == variants with rank in [rank(a), rank(b)] when a <= b, empty otherwise, no panic (slice bounds are Verus obligations), both MaybeUninit indices initialised on every path, index arithmetic == rank for every repr; the result is the same iterator struct as iter(), so C06's invariant/wrapper contracts carry it through any history. Instances: all ordered pairs for small enums, designed + seeded pairs otherwise, with histories (bounded).",
        "assumptions": ["as C06"],
    },
    "C08": {
        "level": "proof",
        "claim": 'Verus proves names() builds the iterator over exactly the name table and the wrapper contracts; alignment with iter()/as_str follows from C03/C06 contracts; table contents per instance (bounded)',
        "layers": ["T", "K", "I", "F"],
        "explanation": "names() is verified to build the std iterator over exactly the __NAME table (== names(), length == count()), its wrapper methods are verified against pop-front/pop-back/nth/last/len contracts, fold/rfold forward verbatim; as_str (C03) returns names()[rank(v)] and iter() yields the variant of rank i at position i, hence the zip alignment. __NAME contents in discriminant order: per corpus instance (bounded) and layer G.",
        "assumptions": ["as C06"],
    },
    "C09": {
        "level": "proof",
        "claim": "one contract per item, discharged by Verus for the body of every mode and shape (so any two modes satisfy the same specification, which determinacy lemmas show fixes the result); Kani proves on the real resolve, for all configurations, that requested items and explicit modes are kept and every auto resolves to a verified mode legal for the shape; under auto every body is token-identical to an explicit mode's body",
        "layers": ["TALL", "R", "S", "SI", "IALL"],
        "si_prefix": ["c9_"],
        "explanation": "C09 is a lemma over the contracts of C03-C08: the overlay attaches the same postcondition to every (mode, shape) body of an item (checked mechanically: S/spec-identity), Verus discharges it for each body, and lemma_det_* / lemma_vals_unique prove that two results satisfying it are equal. Layer R (Kani, loop-free, all 2^17 x modes x shapes configurations of the real Features::resolve): nothing requested is dropped, explicit modes are kept, no mode stays Auto, iter Range only on gapless, range never with table_inline. S/auto-body: for the same enum under 11 + seeded feature sets, each generated body under auto equals the body of one explicit mode. Instances c9_* run every such configuration against the same oracle (bounded).",
    },
    "C10": {
        "level": "other",
        "claim": "(i) dependency closure proved by Kani on the real resolve over all configurations, with the `uses` relation extracted from real expansions; (ii) every feature x mode x shape x 12 reprs base case type-checks (rustc, exhaustive over the finite catalogue); (iii) every feature/mode/parameter named in the rustdoc is accepted (exhaustive over the documented catalogue); (iv) split attributes expand token-identically; behaviour of the catalogue entries checked natively (bounded)",
        "layers": ["R", "S", "SI", "IR"],
        "si_prefix": ["d_", "sp_"],
        "explanation": "Level other: (i) is a proof (Kani/CBMC, no loops, complete over the configuration space), (ii)-(iv) are exhaustive enumerations of finite catalogues decided by rustc and by token comparison of real expansions. Compositionality (a union of items compiles if each item's references resolve and names are distinct) is an argument, cross-checked by the everything-enabled configurations of the instance corpus.",
        "assumptions": ["compositionality of item-wise type checking (argument, not proof)", "the documented catalogue is what the rustdoc of src/lib.rs lists (parsed mechanically)"],
        "technique": "contract proof of the real Features::resolve with Kani (dependency closure, all configurations) + exhaustive rustc type-check of finite catalogues",
    },
    "C11": {
        "level": "exploration",
        "claim": "two parts, labelled separately. PROVED (Verus, unbounded over declarations): the discriminant evaluation of parse_values — the statement of the loop body and the two initialisations, sliced verbatim from /repo/src/parser/values.rs — associates with each variant exactly the value the language rule assigns (explicit literal, optionally negated; previous + 1; 0 first) and reaches no diagnostic (`emit_error!` has precondition false) for every declaration whose discriminants are implicit or (negated) integer literals within i64 and pairwise different (g_disc_init, g_disc_step, lemma_disc_sequence; loop threading checked structurally). BOUNDED, never reported as proved: a designed + seeded corpus of declarations in the documented domain (12 reprs x 8 literal spellings, implicit/explicit mixes, repr and i64 limits, foreign attributes, 300-400 variants; thorough: 65534) must be accepted by macro and rustc and every derived item must agree with `variant as repr` as assigned by rustc",
        "layers": ["G", "C11", "IR"],
        "assumptions": [
            "layer G second file: shim types stand for syn::{Expr, ExprUnary, ExprLit, Lit, LitInt, UnOp, Variant}, proc_macro2::{Ident, Span}, Error, FeatureSorted (same names, variants, fields and nesting as far as the sliced statements touch them; all other syn variants collapsed into `Other`)",
            "assumed contract (external_body) of syn::LitInt::base10_parse::<N>: succeeds iff the literal's mathematical value fits N and returns it; literal spelling (bases, `_`, suffixes) is decided on the bounded corpus only",
            "`emit_error!` is modelled as a call with precondition false (no diagnostic is reachable inside the domain); its continue-after-error behaviour is therefore never exercised by the proof",
            "the `for mut v in data.variants` loop itself (syn Punctuated iteration) is not verified: that the sliced statement runs once per variant in declaration order with `last`/`values` threaded is a structural obligation on the token text (G/disc_threading)",
            "vstd specifications of HashMap::{new, insert, is_empty}, Option::{take, map, and_then, is_some}, Result::ok, i64::try_from(i128), i64::wrapping_add",
            "attribute walking, sorted(name), the unit-field test, repr lookup, the 65534 limit and rustc's acceptance of the generated code are NOT under contract (bounded corpus)",
        ],
        "explanation": "The arithmetic of the discriminant evaluation is within the verifier's reach once the syn types it pattern-matches on are replaced by shim types of the same shape; that part is discharged for all declarations. Attribute walking, literal spelling (syn's base10_digits, assumed by the contract of LitInt::base10_parse), repr lookup, the size limit and the acceptance of the generated code by rustc stay outside: for those the per-declaration contract check is the bounded stand-in. The level stays `exploration` because the property as a whole (accepted AND compiles) is decided only over the corpus.",
        "technique": "contract-based deductive verification (Verus) of the discriminant evaluation sliced verbatim from parse_values + bounded per-declaration contract check of the real expansion (rustc + native oracle) for everything else",
        "note": "bounded exploration over declarations for acceptance/compilation; proved for the discriminant arithmetic; trusted: shim types standing for syn::{Expr, ExprUnary, ExprLit, Lit, LitInt, UnOp, Variant} (same names and nesting; unnamed variants collapsed into `Other`), assumed contract of LitInt::base10_parse (parse succeeds iff the literal's value fits the target type), vstd's HashMap/Option/Result/TryFrom specifications, that the `for` loop runs the statement once per variant in declaration order (structural check), rustc's `as` for the oracle side, the corpus generator's language rule for implicit discriminants",
    },
    "C12": {
        "auxiliary": True,   # not registered in MANIFEST.json (listed under not_applicable): outside the technique family
        "level": "exploration",
        "claim": "bounded stand-in, never counted as proved: no contract can decide rejection (syn-AST pattern matching inside the proc-macro, observable only as rustc accept/reject); a designed catalogue of 31 declarations outside the domain (struct, union, no variants, every kind of field, 12 kinds of non-literal discriminant, values outside i64, missing/duplicated/non-primitive repr; thorough: 65535 variants) must each be rejected by the real macro + rustc, and 4 nearest in-domain controls must be accepted",
        "layers": ["N"],
        "explanation": "See DESIGN §4 C12: the technique of this task (contracts discharged by a deductive verifier) cannot express or decide this property; the catalogue is the bounded check the brief allows for a function outside the verifier's reach.",
        "technique": "bounded: finite catalogue of declarations with demanded verdicts, decided by the real macro + rustc (stand-in; the property itself is outside contract-based verification)",
        "note": "bounded over declarations (stated catalogue); trusted: rustc",
    },
    "C13": {
        "auxiliary": True,   # not registered in MANIFEST.json (listed under not_applicable): outside the technique family
        "level": "exploration",
        "claim": "the three configuration-compatibility clauses implemented in Features::resolve (range without iter, range with table_inline, iter range on holes) are PROVED by Kani on the real resolve for all configurations; everything else (string-keyed attribute parsing, proc_macro_error reporting) is a bounded stand-in: 101 attribute contents with demanded verdicts (unknown/misspelled/repeated features and parameters, undocumented modes and visibilities, wrong kinds, the three clauses, 22 variant-level forms, split attributes; 5 controls) decided by the real macro + rustc",
        "layers": ["R", "N"],
        "explanation": "Level exploration because the bulk is a bounded catalogue; the R:legal:* obligations are complete over the configuration space.",
        "technique": "Kani contract proof for the clauses inside Features::resolve + bounded catalogue of attribute contents (stand-in)",
        "note": "bounded over attribute contents (stated catalogue); the three resolve clauses are proved",
    },
    "C14": {
        "auxiliary": True,   # not registered in MANIFEST.json (listed under not_applicable): outside the technique family
        "level": "exploration",
        "claim": "bounded stand-in, never counted as proved: all 24 declaration orders of a 4-variant enum whose name order and value order differ (with a rename) x {sorted(value), sorted(name), sorted(name, value), no sorted} plus 18 designed cases (implicit discriminants, negative values, equal names, byte-wise order, single variant) must compile iff strictly sorted by the criterion — decided by the real macro + rustc",
        "layers": ["N"],
        "explanation": "The two comparisons live inside the syn-walking loop of parse_values (DESIGN §4 C14); the iff is observable only as accept/reject.  Exhaustive over the permutations of the 4-variant enum, bounded over enums.",
        "technique": "bounded: exhaustive permutations of a small enum with demanded verdicts, decided by the real macro + rustc (stand-in)",
        "note": "bounded over declarations (stated catalogue); trusted: rustc",
    },
    "C15": {
        "level": "other",
        "claim": "structural obligations on the real expansion AST over a finite catalogue (11 nameable features x visibilities x 5 enum visibilities x custom names/struct names; helper-only configurations): requested identifier and visibility token-equal, helpers `__`-prefixed with inherited visibility, nothing else in the impl or module; rustc resolves every internal reference under the custom names; behaviour under custom names checked natively",
        "layers": ["S", "SI"],
        "si_prefix": ["v_"],
        "explanation": "Privacy of an inherited-visibility item outside its module is Rust's rule (trusted). The catalogue is finite and enumerated exhaustively except that item visibilities more public than the enum are skipped (rustc rejects private types in public interfaces).",
        "technique": "decidable frame condition on the expansion AST (vx) + rustc; not a Hoare-style proof",
    },
    "C16": {
        "level": "other",
        "claim": "free-name closure: every path in every generated function/struct/impl of every catalogue expansion is absolute ::core or rooted in Self / the enum / a generated struct / a local binding / a name imported by an absolute use in the same function; no macro invocations; base cases compile and behave identically under #[no_implicit_prelude] with user items, modules and macros named like prelude/core items",
        "layers": ["S", "SI"],
        "si_prefix": ["h_"],
        "explanation": "If the closure holds nothing the user defines (other than the enum's own identifiers and primitive type names) can capture a name, for every surrounding program. Method-call trait resolution is decided by rustc on the hostile base cases (30 configurations).",
        "assumptions": ["primitive type names (u8, usize, str, …) are not shadowed by the user"],
        "technique": "decidable frame condition (free-name closure) on the expansion AST + rustc in hostile contexts",
    },
    "C17": {
        "level": "other",
        "claim": "canonical-order lemma proved in Verus (the key-sorted list of entries with pairwise distinct keys is unique, whatever order the HashMap yields them) + the collect/sort_by_key site found verbatim + audit: the only other hash-map iterations are the two finish() loops whose body is emit_error! only; no RandomState/SystemTime/env use; bounded witness: identical expansions in fresh compiler processes",
        "layers": ["G", "S"],
        "explanation": "A new hash-map iteration site makes the check undecided (exit 2), not a violation. sort_by_key's contract (key-sorted permutation) is assumed.",
        "assumptions": ["slice::sort_by_key returns a key-sorted permutation", "HashMap keys are pairwise distinct (duplicates are reported by the insert check in parse_values)"],
        "technique": "Verus lemma over the contract of the sort site + syntactic audit of iteration sites",
    },
    "C18": {
        "level": "proof",
        "claim": "corollary: every layer-T contract mentions the declaration only through the discriminant set, the name map and the repr, and is proved for each of the 12 reprs; the generator's variant list is a function of the set of (discriminant, ident, name) by the canonical-order lemma; cross-check on the real pipeline: permuted declarations expand token-identically, admissible reprs expand token-identically after renaming the repr",
        "layers": ["TALL", "G", "S", "SI", "IALL"],
        "si_prefix": ["p_", "q_"],
        "explanation": "The token-identity cross-check is bounded over a corpus (4 discriminant sets x 3 configurations x 4 orders; 4 sets x 10 reprs); the proof part is the union of the layer-T obligations and the G lemma.",
    },
    "C19": {
        "level": "other",
        "claim": "every generated item is used at its documented type in every corpus/catalogue module (typed fn-pointer ascriptions, const contexts for into/MIN/MAX, Result<_, ()> / Err = () for the traits, an Iterator+DoubleEndedIterator+ExactSizeIterator+FusedIterator bound on the iterator structs) — discharged by rustc when the harness compiles; item headers of the expansion compared with the signature lines of the rustdoc",
        "layers": ["S", "IR19"],
        "explanation": "Finite catalogue (modes x shapes x reprs of the corpus), exhaustive; decided by the type checker.",
        "technique": "type-level obligations discharged by rustc on ascription probes + header comparison on the expansion AST",
    },
}


def collect(pid, tier, seed):
    p = PROPS[pid]
    obs, metas = [], []
    if "T" in p["layers"]:
        o, m = driver.collect_T(pid, tier)
        m["_layer"] = "T (verus on real generated bodies)"
        obs += o
        metas.append(m)
    if "I" in p["layers"]:
        o, m = driver.collect_I(pid, tier, seed, include_rejected=p.get("rejected", False))
        m["_layer"] = "I (instances, native, bounded)"
        obs += o
        metas.append(m)
    if "TALL" in p["layers"]:
        o, m = driver.collect_T(pid, tier, pids=["C01", "C03", "C04", "C05", "C06", "C07", "C08"])
        m["_layer"] = "T (verus on real generated bodies, all items)"
        obs += o
        metas.append(m)
    if "SI" in p["layers"]:
        o, m = driver.collect_I(pid, tier, seed, source="S", props_filter="any", mod_prefix=p.get("si_prefix"))
        m["_layer"] = "I (catalogue instances, native, bounded)"
        obs += o
        metas.append(m)
    if "IALL" in p["layers"]:
        o, m = driver.collect_I(pid, tier, seed, source="I", props_filter="any")
        m["_layer"] = "I (instance corpus, every item against the oracle, bounded)"
        obs += o
        metas.append(m)
    if "C11" in p["layers"]:
        o, m = driver.collect_I(pid, tier, seed, source="C11", props_filter="any", include_rejected=True)
        m["_layer"] = "I (declaration corpus, native, bounded)"
        obs += o
        metas.append(m)
    if "IR" in p["layers"]:
        # corpus entries that do not compile although they are in the documented domain
        o, m = driver.collect_I(pid, tier, seed, source="I", props_filter="none", include_rejected=True)
        m["_layer"] = "I (compile acceptance of the instance corpus)"
        obs += o
        metas.append(m)
    if "IR19" in p["layers"]:
        for src in ("I", "S"):
            o, m = driver.collect_I(pid, tier, seed, source=src, props_filter="none", include_rejected=True, reject_filter=r"let _p:|__req::|let _e:|const _C:|E0658|E0015")
            m["_layer"] = "rustc on typed ascription probes (%s corpus)" % src
            obs += o
            metas.append(m)
        r_ = driver.artifacts.get_i(tier, seed)
        n_ok = sum(1 for k, v in r_["modules"].items() if v.get("done"))
        obs.append(driver.Ob("I/probes-compiled", "ok" if n_ok else "undecided", "rustc", sample={"modules_with_probes_compiled": n_ok}))
    if "N" in p["layers"]:
        o, m = driver.collect_N(pid, tier, seed)
        m["_layer"] = "N (bounded catalogue of declarations with demanded verdicts, rustc)"
        obs += o
        metas.append(m)
    if "M" in p["layers"]:
        o, m = driver.collect_I(pid, tier, seed, source="M")
        m["_layer"] = "M (the native oracle driver under Miri, small enums, bounded)"
        obs += o
        metas.append(m)
    if "K" in p["layers"]:
        o, m = driver.collect_K(pid, tier)
        m["_layer"] = "K (kani on the unmodified expansion of small enums, complete per enum)"
        obs += o
        metas.append(m)
    if "R" in p["layers"]:
        o, m = driver.collect_R(pid, tier)
        m["_layer"] = "R (kani on the real Features::resolve)"
        obs += o
        metas.append(m)
    if "G" in p["layers"]:
        o, m = driver.collect_G(pid, tier)
        m["_layer"] = "G (verus on generator slices)"
        obs += o
        metas.append(m)
    if "F" in p["layers"]:
        o, m = driver.collect_S_forwarding(pid, tier)
        m["_layer"] = "S (structural forwarding obligations on the expansion)"
        obs += o
        metas.append(m)
    if "S" in p["layers"]:
        o, m = driver.collect_S(pid, tier, seed)
        m["_layer"] = "S (structural obligations on the expansion, finite catalogues)"
        obs += o
        metas.append(m)
    if "U" in p["layers"]:
        o, m = driver.collect_unsafe_coverage(tier, seed)
        m["_layer"] = "U (unsafe-site coverage guard)"
        obs += o
        metas.append(m)
    return obs, metas
