"""Corpus of enum declarations (DESIGN §1 step 2).

Every entry carries its own oracle: the list (discriminant, variant identifier, name) sorted by
discriminant, computed here from the declaration by the language rule (explicit literal, or
previous + 1, first = 0) — never from the macro's output.
"""
import random
from .common import REPRS, dom_min, dom_max, rmin, rmax, wrap

ALL_FEATURES_FN = ["as_str", "from_str", "into", "MIN", "MAX", "next", "next_back", "try_from", "iter", "names", "range"]
ALL_FEATURES_TRAIT = ["Debug", "Display", "FromStr", "Into", "IntoStr", "TryFrom"]


def rust_str(s):
    out = '"'
    for ch in s:
        if ch == '"':
            out += '\\"'
        elif ch == '\\':
            out += '\\\\'
        elif ch == '\n':
            out += '\\n'
        elif ch == '\t':
            out += '\\t'
        elif ch == '\r':
            out += '\\r'
        elif ord(ch) < 0x20 or ord(ch) == 0x7f:
            out += '\\u{%x}' % ord(ch)
        else:
            out += ch
    return out + '"'


DEFAULT_NAMES = {"as_str": "as_str", "from_str": "from_str", "into": "into", "MIN": "MIN", "MAX": "MAX", "next": "next",
                 "next_back": "next_back", "try_from": "try_from", "iter": "iter", "names": "names", "range": "range"}


def parse_features(feats):
    """['as_str(mode="table", name="x")', 'MIN'] -> {'as_str': {'mode': 'table', 'name': 'x'}, 'MIN': {}}"""
    import re
    out = {}
    for f in feats:
        m = re.match(r"^\s*(\w+)\s*(?:\((.*)\))?\s*$", f, re.S)
        if not m:
            continue
        params = {}
        if m.group(2):
            for pm in re.finditer(r'(\w+)\s*(?:=\s*"((?:[^"\\]|\\.)*)")?', m.group(2)):
                params[pm.group(1)] = pm.group(2) if pm.group(2) is not None else True
        out[m.group(1)] = params
    return out


class Variant:
    def __init__(self, ident, disc, spelling=None, rename=None, attrs=()):
        self.ident = ident          # identifier
        self.disc = disc            # the discriminant (int), as the language assigns it
        self.spelling = spelling    # literal text for an explicit discriminant, None => implicit
        self.rename = rename        # None or string
        self.attrs = tuple(attrs)   # extra (foreign) attribute lines

    @property
    def name(self):
        return self.ident if self.rename is None else self.rename


class EnumSpec:
    def __init__(self, mod, repr_, variants, features, ident="En", tags=(), vis="pub", derives="Clone, Copy, EnumTools",
                 enum_attrs=(), split=False, context=""):
        self.mod = mod
        self.repr = repr_
        self.variants = variants
        self.features = features     # list of feature strings e.g. ['as_str(mode="table")', 'MIN']
        self.ident = ident
        self.tags = set(tags)
        self.vis = vis
        self.derives = derives
        self.enum_attrs = tuple(enum_attrs)
        self.split = split           # one #[enum_tools] attribute per feature
        self.context = context       # extra items placed in the module before the enum

    @property
    def cfg(self):
        return parse_features(self.features)

    def item_name(self, feat):
        c = self.cfg.get(feat)
        if c is None:
            return None
        return c.get("name") or DEFAULT_NAMES[feat]

    # ---- oracle ---------------------------------------------------------------------------
    def sorted_variants(self):
        return sorted(self.variants, key=lambda v: v.disc)

    def discs(self):
        return [v.disc for v in self.sorted_variants()]

    def runs(self):
        d = self.discs()
        out = []
        b = last = d[0]
        for x in d[1:]:
            if x != last + 1:
                out.append((b, last))
                b = x
            last = x
        out.append((b, last))
        return out

    def is_gapless(self):
        return len(self.runs()) == 1

    def shape(self):
        return "gapless" if self.is_gapless() else "holes"

    # ---- rendering ------------------------------------------------------------------------
    def render(self):
        lines = ["pub mod %s {" % self.mod, "    #[allow(unused_imports)] use enum_tools::EnumTools;"]
        if self.context:
            lines.append(self.context)
        lines.append("    #[derive(%s)]" % self.derives)
        if self.features:
            if self.split:
                for f in self.features:
                    lines.append("    #[enum_tools(%s)]" % f)
            else:
                lines.append("    #[enum_tools(%s)]" % ", ".join(self.features))
        for a in self.enum_attrs:
            lines.append("    " + a)
        lines.append("    #[repr(%s)]" % self.repr)
        lines.append("    %s enum %s {" % (self.vis, self.ident) if self.vis else "    enum %s {" % self.ident)
        for v in self.variants:
            for a in v.attrs:
                lines.append("        " + a)
            if v.rename is not None:
                lines.append("        #[enum_tools(rename = %s)]" % rust_str(v.rename))
            if v.spelling is None:
                lines.append("        %s," % v.ident)
            else:
                lines.append("        %s = %s," % (v.ident, v.spelling))
        lines.append("    }")
        lines.append("}")
        return "\n".join(lines)

    def describe(self):
        return {
            "mod": self.mod, "repr": self.repr, "shape": self.shape(), "features": self.features,
            "n": len(self.variants),
            "decl": [(v.ident, v.spelling, v.rename) for v in self.variants[:12]],
            "runs": self.runs()[:8],
        }


def _h(s):
    import zlib
    return zlib.crc32(s.encode())


def ident_for(i):
    """A, B, …, Z, V26, V27 …"""
    if i < 26:
        return chr(ord('A') + i)
    return "V%d" % i


def mk_variants(discs, order="sorted", renames=None, rng=None, implicit_ok=True, spell=None):
    """variants for the given discriminants (ascending list); declaration order per `order`."""
    ds = list(discs)
    idx = list(range(len(ds)))
    if order == "reversed":
        idx.reverse()
    elif order == "shuffled":
        (rng or random.Random(1)).shuffle(idx)
    out = []
    prev = None
    for pos, i in enumerate(idx):
        d = ds[i]
        nxt = 0 if prev is None else prev + 1
        if implicit_ok and d == nxt and (rng is None or rng.random() < 0.5):
            sp = None
        else:
            sp = spell(d) if spell else str(d)
        rn = None
        if renames and i in renames:
            rn = renames[i]
        out.append(Variant(ident_for(i), d, sp, rn))
        prev = d
    return out


# ---------------------------------------------------------------------------------------------
# layer-T cells: one configuration per cell, two different enums per (repr, cell) for the
# uniformity obligation.
# ---------------------------------------------------------------------------------------------
T_CELLS = {
    # cell -> (shape, features)
    "H1": ("holes", ['as_str(mode="table")', 'from_str(mode="table")', 'FromStr(mode="table")', "Debug", "Display",
                     "IntoStr", "into", "Into", "try_from", "TryFrom", "MIN", "MAX", "next", "next_back",
                     'iter(mode="next_and_back")', "range", "names"]),
    "H2": ("holes", ['iter(mode="table")', "range", "names"]),
    "G1": ("gapless", ['as_str(mode="table")', 'from_str(mode="table")', 'FromStr(mode="table")', "Debug", "Display",
                       "IntoStr", "into", "Into", "try_from", "TryFrom", "MIN", "MAX", "next", "next_back",
                       'iter(mode="next_and_back")', "range", "names"]),
    "G2": ("gapless", ['iter(mode="range")', "range"]),
    "G3": ("gapless", ['iter(mode="table")', "range"]),
    "H3": ("holes", ['iter(mode="table_inline")']),
    "G4": ("gapless", ['iter(mode="table_inline")']),
}


T_CELL_TAGS = {"H1": {"iter_nab"}, "G1": {"iter_nab"}, "H2": {"iter_table", "iter_wrap"}, "G3": {"iter_table", "iter_wrap"}, "G2": {"iter_range", "iter_wrap"},
               "H3": {"iter_inline", "iter_wrap"}, "G4": {"iter_inline", "iter_wrap"}}


def t_cell_discs(repr_, shape, which):
    lo, hi = dom_min(repr_), dom_max(repr_)
    if lo == -(1 << 63):
        lo += 1  # i64::MIN itself is exercised by the C11 corpus (finding F3), not by the layer-T cells
    signed = REPRS[repr_][1]
    if shape == "gapless":
        if which == "a":
            return [3, 4, 5, 6]
        return [-2, -1, 0, 1, 2] if signed else [hi - 2, hi - 1, hi]
    if which == "a":
        return [1, 2, 3, 7, 9, 10]
    if signed:
        return [lo, lo + 1, -5, -4, 0, 100, hi]
    return [0, 1, 5, 100, 101, hi]


def t_cells(reprs=None):
    out = []
    for r in (reprs or REPRS):
        for cell, (shape, feats) in T_CELLS.items():
            for which in ("a", "b"):
                ds = t_cell_discs(r, shape, which)
                ren = {1: "two words", len(ds) - 1: "q\"\\{}"} if which == "b" else None
                vs = mk_variants(ds, order="sorted" if which == "a" else "reversed", renames=ren, implicit_ok=False)
                out.append(EnumSpec("t_%s_%s_%s" % (r, cell, which), r, vs, list(feats), ident="En" if which == "a" else "Other",
                                    tags={"T", cell, shape, which} | T_CELL_TAGS[cell]))
    return out


# ---------------------------------------------------------------------------------------------
# layer-I corpus: designed partition + seeded random entries
# ---------------------------------------------------------------------------------------------
CFG = {
    "ALL_TABLE": ['as_str(mode="table")', 'from_str(mode="table")', 'FromStr(mode="table")', "Debug", "Display", "IntoStr",
                  "into", "Into", "try_from", "TryFrom", "MIN", "MAX", "next", "next_back", 'iter(mode="next_and_back")',
                  "range", "names"],
    "ALL_MATCH": ['as_str(mode="match")', 'from_str(mode="match")', 'FromStr(mode="match")', "Debug", "Display", "IntoStr",
                  "into", "Into", "try_from", "TryFrom", "MIN", "MAX", "next", "next_back", 'iter(mode="table")',
                  "range", "names"],
    "ALL_AUTO": ["as_str", "from_str", "FromStr", "Debug", "Display", "IntoStr", "into", "Into", "try_from", "TryFrom",
                 "MIN", "MAX", "next", "next_back", "iter", "range", "names"],
    "INLINE": ['iter(mode="table_inline")', "names", "as_str", "from_str"],
    "RANGE": ['iter(mode="range")', "range", "MIN", "MAX"],
    "AUTO_NORANGE": ["iter", "as_str", "FromStr"],
}

SPECIAL_NAMES = ["Ångström-µs-ÄÖÜ-ßß", "", "r#type", "two words", "q\"uote", "back\\slash", "{}", "{0}", "naïve-ü", "日本", "tab\there", "A", "\\n", "'", "}}{{",
                 " lead", "trail ", "r#", "#[x]", "__NAME", "Self", "a\0b", "x" * 300, "\ufeffbom", "/* c */", "// c", "0", "-1"]


def patterns(repr_):
    """named discriminant lists for repr_ (ascending)"""
    lo, hi = dom_min(repr_), dom_max(repr_)
    tlo, thi = rmin(repr_), rmax(repr_)
    signed = REPRS[repr_][1]
    bits = REPRS[repr_][0]
    safe_lo = lo if lo != -(1 << 63) else lo + 1   # i64::MIN spelled as a literal is finding F3 (C11 corpus)
    P = {}
    P["g_small"] = [0, 1, 2, 3]
    P["single"] = [7]
    P["g_hi"] = [hi - 3, hi - 2, hi - 1, hi]
    P["h_mixed"] = [0, 1, 2, 9, 10, 20, hi - 1, hi]
    P["h_sparse"] = [1, 3, 5, 7, 11]
    if signed:
        P["g_cross"] = [-3, -2, -1, 0, 1, 2]
        P["g_lo"] = [safe_lo, safe_lo + 1, safe_lo + 2]
        P["h_neg_later"] = [-10, -5, -4, 3]                      # negative start in a later run (F1)
        P["h_lo_start"] = [safe_lo, safe_lo + 1, 5, hi]          # run at type/domain minimum (F6), run at maximum
        P["h_allneg"] = [-100, -99, -50, -3, -2, -1]
        if bits >= 64:
            P["h_far"] = [safe_lo, hi]          # neighbours more than 2^63 apart (differences overflow i64)
    else:
        P["h_lo_start"] = [0, 1, 5, hi]
    # with-holes enums whose span, truncated to 8 / 16 / 32 bits, equals the variant count - 1 (a size or mode
    # threshold computed in a narrower integer would take them for gapless)
    for wb in (8, 16, 32):
        m = 1 << wb
        if hi >= m + 2:
            P["h_span_wrap%d" % wb] = ([-1, 0, m + 1] if signed else [0, 1, m + 2])
    if bits == 8:
        P["g_full"] = list(range(tlo, thi + 1))                   # all 256 values
        P["h_full_but_one"] = [x for x in range(tlo, thi + 1) if x != (5 if not signed else -5)]
        P["h_every_other"] = list(range(tlo, thi + 1, 2))
    else:
        base = -150 if signed else 10
        P["h_300"] = [base + i + (i // 7) * 2 for i in range(300)]
        P["g_300"] = [base + i for i in range(300)]
    return P


def names_for(n, style, rng):
    if style == "plain":
        return None
    ren = {}
    if style == "special":
        for i in range(min(n, len(SPECIAL_NAMES))):
            ren[(i * 3) % n] = SPECIAL_NAMES[i]
        # keep names unique: drop clashes with identifiers
    elif style == "dups":
        ren[0] = "same"
        if n > 2:
            ren[n - 1] = "same"
        if n > 3:
            ren[1] = ident_for(2)      # renamed to the identifier of another variant
    return ren


def make_instance(tag, repr_, pname, discs, cfgname, order="sorted", style="plain", rng=None, split=False, implicit_ok=True):
    rng = rng or random.Random(5)
    ren = names_for(len(discs), style, rng)
    vs = mk_variants(discs, order=order, renames=ren, rng=rng, implicit_ok=implicit_ok)
    mod = "i_%s_%s_%s_%s" % (repr_, pname, cfgname.lower(), tag)
    return EnumSpec(mod, repr_, vs, list(CFG[cfgname]), ident="En", tags={"I", pname, cfgname, order, style}, split=split)


MODES = {"as_str": ["auto", "match", "table"], "from_str": ["auto", "match", "table"], "FromStr": ["auto", "match", "table"],
         "iter": ["auto", "range", "next_and_back", "table", "table_inline"]}
USER_FEATS = ["as_str", "from_str", "FromStr", "Debug", "Display", "IntoStr", "into", "Into", "try_from", "TryFrom", "MIN", "MAX",
              "next", "next_back", "iter", "range", "names"]


def random_config(rng, gapless):
    """a legal configuration: random subset of the 17 user features, random documented modes"""
    feats = [f for f in USER_FEATS if rng.random() < 0.5]
    if not feats:
        feats = [rng.choice(USER_FEATS)]
    if "range" in feats and "iter" not in feats:
        feats.append("iter")
    out = []
    for f in feats:
        if f in MODES:
            ms = list(MODES[f])
            if f == "iter":
                if not gapless:
                    ms.remove("range")
                if "range" in feats:
                    ms.remove("table_inline")
            m = rng.choice(ms)
            out.append(f if (m == "auto" and rng.random() < 0.7) else '%s(mode="%s")' % (f, m))
        else:
            out.append(f)
    rng.shuffle(out)
    return out


def random_config_specs(tier, seed):
    rng = random.Random(seed * 31 + 5)
    enums = [("i8", [-100, -99, -5, 0, 1, 100], "h"), ("u16", [3, 4, 5, 6, 7], "g"), ("i64", [-7, 20, 21, 22, 400], "h"),
             ("u8", [0, 9, 10, 11, 200, 255], "h"), ("isize", [-2, -1, 0, 1], "g")]
    n = 8 if tier == "quick" else 60
    out = []
    for r, ds, tag in enums:
        gap = all(b - a == 1 for a, b in zip(ds, ds[1:]))
        for k in range(n):
            feats = random_config(rng, gap)
            ren = {0: "zz top", 1: "aa bottom"} if k % 2 == 0 else ({len(ds) - 1: ident_for(0)} if k % 3 == 0 else None)
            vs = mk_variants(ds, order=rng.choice(["sorted", "reversed", "shuffled"]), renames=ren, rng=random.Random(rng.random()), implicit_ok=False)
            out.append(EnumSpec("i_%s_%s_cfg%d" % (r, tag, k), r, vs, feats, ident="En", tags={"I", "randcfg"}))
    return out


def sorted_specs():
    """declarations carrying the documented `sorted(...)` requirement and meeting it: the requirement is about the
    DECLARATION order, the derived behaviour must be the same as without it (tables are in value order)"""
    out = []
    # (repr, [(ident, disc)] in declaration order, which orders hold)
    decls = [
        ("i8", [("High", 2), ("Low", -3), ("Mid", 0), ("Top", 100)], "name"),              # names ascending, values not
        ("u16", [("Alpha", 9), ("Beta", 2), ("Delta", 1), ("Gamma", 0), ("Omega", 3)], "name"),
        ("i32", [("Zed", -5), ("Yak", -4), ("Xi", 0), ("Web", 7)], "value"),               # values ascending, names not
        ("u8", [("Ant", 0), ("Bee", 1), ("Cat", 2), ("Dog", 200)], "name, value"),
        ("i64", [("B", 5), ("C", 4), ("D", 3), ("E", 2), ("F", 1), ("G", 0)], "name"),     # gapless, reversed values
    ]
    for r, d, what in decls:
        for cname in ("ALL_TABLE", "ALL_MATCH", "ALL_AUTO"):
            vs = [Variant(i, x, str(x)) for (i, x) in d]
            tag = what.replace(", ", "_")
            out.append(EnumSpec("i_%s_sorted_%s_%s" % (r, tag, cname.lower()), r, vs, list(CFG[cname]) + ["sorted(%s)" % what],
                                ident="En", tags={"I", "sorted", cname}))
    return out


def instance_corpus(tier="quick", seed=1, reprs=None):
    rng = random.Random(seed)
    out = []
    reprs = list(reprs or REPRS)
    for r in reprs:
        P = patterns(r)
        for pname, discs in P.items():
            gapless = all(b - a == 1 for a, b in zip(discs, discs[1:]))
            big = len(discs) > 64
            cfgs = ["ALL_TABLE", "ALL_MATCH", "ALL_AUTO"]
            if gapless:
                cfgs.append("RANGE")
            if not big:
                cfgs.append("INLINE")
            cfgs.append("AUTO_NORANGE")
            if tier == "quick":
                # every (repr, pattern) gets the table configuration; the other configurations rotate
                pick = ["ALL_TABLE", cfgs[1 + (_h(r + pname) % (len(cfgs) - 1))]]
                if pname in ("h_neg_later", "h_lo_start", "g_full", "h_300"):
                    pick = cfgs
            else:
                pick = cfgs
            for ci, c in enumerate(pick):
                order = ["sorted", "shuffled", "reversed"][(ci + len(pname)) % 3]
                style = ["plain", "special", "dups"][(ci + len(discs)) % 3]
                out.append(make_instance("%d" % ci, r, pname, discs, c, order=order, style=style, rng=random.Random(rng.random())))
    # seeded random enums
    nrand = 12 if tier == "quick" else 120
    for k in range(nrand):
        r = rng.choice(reprs)
        lo, hi = dom_min(r), dom_max(r)
        if lo == -(1 << 63):
            lo += 1
        nruns = rng.choice([1, 1, 2, 3, 5])
        discs = set()
        anchors = [lo, hi, 0, -1 if lo < 0 else 1, rng.randint(lo, hi)]
        for _ in range(nruns):
            a = rng.choice(anchors + [rng.randint(max(lo, -1000), min(hi, 1000))])
            ln = rng.randint(1, 6)
            for x in range(a, a + ln):
                if lo <= x <= hi:
                    discs.add(x)
            for x in range(a - ln, a):
                if lo <= x <= hi and rng.random() < 0.3:
                    discs.add(x)
        discs = sorted(discs)
        gapless = all(b - a == 1 for a, b in zip(discs, discs[1:]))
        c = rng.choice(["ALL_TABLE", "ALL_MATCH", "ALL_AUTO"] + (["RANGE"] if gapless else []) + ["INLINE"])
        out.append(make_instance("r%d" % k, r, "rand", discs, c, order=rng.choice(["sorted", "shuffled", "reversed"]),
                                 style=rng.choice(["plain", "special", "dups"]), rng=random.Random(rng.random())))
    if reprs is None or len(reprs) == len(REPRS):
        out += random_config_specs(tier, seed)
        out += sorted_specs()
    if tier != "quick":
        for r in ("u16", "i32", "u64"):
            base = 0 if r.startswith("u") else -500
            discs = [base + i + (i // 50) * 3 for i in range(1000)]
            out.append(make_instance("k", r, "h_1000", discs, "ALL_TABLE", order="shuffled", style="plain", rng=random.Random(3)))
            out.append(make_instance("k", r, "g_1000", [base + i for i in range(1000)], "ALL_AUTO", order="reversed", style="plain", rng=random.Random(4)))
    return out


# ---------------------------------------------------------------------------------------------
# C11 corpus: the documented domain of declarations (literal spellings, implicit/explicit mixes,
# limits, foreign attributes, sizes)
# ---------------------------------------------------------------------------------------------
def spell(d, style, repr_):
    neg = d < 0
    a = -d if neg else d
    if style == "hex":
        t = "0x%X" % a
    elif style == "hex_us":
        t = "0x_%x" % a
    elif style == "oct":
        t = "0o%o" % a
    elif style == "bin":
        t = "0b%s" % bin(a)[2:]
    elif style == "us":
        t = "_".join(re_chunks(str(a)))
    elif style == "suffix":
        t = "%d%s" % (a, repr_)
    elif style == "suffix_us":
        t = "%d_%s" % (a, repr_)
    else:
        t = str(a)
    return ("-" + t) if neg else t


def re_chunks(s):
    out = []
    while len(s) > 3:
        out.insert(0, s[-3:])
        s = s[:-3]
    out.insert(0, s)
    return out


def c11_specs(tier="quick", seed=1):
    rng = random.Random(seed + 11)
    out = []
    styles = ["dec", "hex", "hex_us", "oct", "bin", "us", "suffix", "suffix_us"]
    k = 0
    for r in REPRS:
        lo, hi = dom_min(r), dom_max(r)
        tlo, thi = rmin(r), rmax(r)
        signed = REPRS[r][1]
        # 1. literal spellings, one enum per style, explicit discriminants incl. negative ones
        base = [-77, -3, 0, 5, 100] if signed else [0, 5, 100, 200]
        for st in styles:
            vs = [Variant(ident_for(i), d, spell(d, st, r)) for i, d in enumerate(base)]
            rng.shuffle(vs)
            out.append(EnumSpec("e_%s_sp_%s" % (r, st), r, vs, list(CFG["ALL_TABLE" if k % 2 else "ALL_AUTO"]), tags={"C11", "spelling", st}))
            k += 1
        # 2. implicit after explicit, implicit first, implicit after negative
        mixes = [
            [("A", None), ("B", None), ("C", "10"), ("D", None), ("E", "7"), ("F", None)],
            [("A", "5"), ("B", None), ("C", None), ("D", "2"), ("E", None)],
        ]
        if signed:
            mixes.append([("A", "-2"), ("B", None), ("C", None), ("D", None), ("E", "-10"), ("F", None)])
            mixes.append([("Z", "-1"), ("Y", None)])
        for mi, mx in enumerate(mixes):
            vs = []
            prev = -1
            for ident, sp in mx:
                d = prev + 1 if sp is None else int(sp)
                vs.append(Variant(ident, d, sp))
                prev = d
            out.append(EnumSpec("e_%s_mix%d" % (r, mi), r, vs, list(CFG["ALL_MATCH" if mi % 2 else "ALL_TABLE"]), tags={"C11", "implicit"}))
        # 3. limits of the repr and of the i64 domain
        lim = [(lo, "lo"), (hi, "hi")]
        vs = [Variant("LO", lo, str(lo)), Variant("LO1", lo + 1, None), Variant("MID", 0 if lo < 0 else 7, str(0 if lo < 0 else 7)), Variant("HI", hi, spell(hi, "hex", r))]
        out.append(EnumSpec("e_%s_limits" % r, r, vs, list(CFG["ALL_TABLE"]), tags={"C11", "limits"}))
        vs = [Variant("HI1", hi - 1, str(hi - 1)), Variant("HI", hi, None), Variant("LO", lo, spell(lo, "us", r))]
        out.append(EnumSpec("e_%s_limits2" % r, r, vs, list(CFG["ALL_AUTO"]), tags={"C11", "limits"}))
        # 4. foreign attributes and doc comments
        vs = [Variant("A", 1, "1", attrs=("/// first", "#[allow(dead_code)]")), Variant("B", 2, None, rename="bee", attrs=("#[doc = \"second\"]",)),
              Variant("C", 9, "9", attrs=("#[cfg_attr(all(), allow(unused))]", "/** block doc */")),
              Variant("D", 10, None, attrs=("#[allow(dead_code, non_camel_case_types)]", "#[deprecated(since = \"0.1\", note = \"x, y\")]")),
              Variant("E", 11, None, attrs=("#[cfg_attr(all(), allow(unused, dead_code), doc = \"z\")]", "#[doc(alias = \"e\", alias = \"ee\")]"))]
        out.append(EnumSpec("e_%s_attrs" % r, r, vs, list(CFG["ALL_TABLE"]), tags={"C11", "attrs"},
                            enum_attrs=("/// An enum with foreign attributes", "#[allow(clippy::all)]", "#[cfg_attr(all(), allow(dead_code))]", "#[doc(hidden)]",
                                        "#[allow(deprecated, dead_code, non_camel_case_types)]", "#[doc(alias = \"x\", alias = \"y\")]")))
    # 5. sizes
    out.append(EnumSpec("e_u16_n300", "u16", [Variant("V%d" % i, i, None) for i in range(300)], list(CFG["ALL_AUTO"]), tags={"C11", "size"}))
    out.append(EnumSpec("e_i16_n400h", "i16", [Variant("V%d" % i, -200 + i + (i // 9), str(-200 + i + (i // 9)) if i % 9 == 0 else None) for i in range(400)],
                        list(CFG["ALL_TABLE"]), tags={"C11", "size"}))
    if tier != "quick":
        out.append(EnumSpec("e_u16_n65534", "u16", [Variant("V%d" % i, i, None) for i in range(65534)], ["as_str", "try_from", "MIN", "MAX", "next", "iter", "into"], tags={"C11", "size", "max"}))
        out.append(EnumSpec("e_i32_n5000h", "i32", [Variant("V%d" % i, -2500 + 2 * i, str(-2500 + 2 * i)) for i in range(5000)], list(CFG["ALL_TABLE"]), tags={"C11", "size"}))
    return out
