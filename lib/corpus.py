"""Corpus of enum declarations (DESIGN §1 step 2).

Every entry carries its own oracle: the list (discriminant, variant identifier, name) sorted by
discriminant, computed here from the declaration by the language rule (explicit literal, or
previous + 1, first = 0) — never from the macro's output.
"""
import random
from .common import REPRS, dom_min, dom_max, rmin, rmax, wrap

ALL_FEATURES_FN = ["as_str", "from_str", "into", "MIN", "MAX", "next", "next_back", "try_from", "iter", "names", "range"]
ALL_FEATURES_TRAIT = ["Debug", "Display", "FromStr", "Into", "IntoStr", "TryFrom"]


def rust_str(s):
    out = '"'
    for ch in s:
        if ch == '"':
            out += '\\"'
        elif ch == '\\':
            out += '\\\\'
        elif ch == '\n':
            out += '\\n'
        elif ch == '\t':
            out += '\\t'
        elif ch == '\r':
            out += '\\r'
        elif ord(ch) < 0x20 or ord(ch) == 0x7f:
            out += '\\u{%x}' % ord(ch)
        else:
            out += ch
    return out + '"'


class Variant:
    def __init__(self, ident, disc, spelling=None, rename=None, attrs=()):
        self.ident = ident          # identifier
        self.disc = disc            # the discriminant (int), as the language assigns it
        self.spelling = spelling    # literal text for an explicit discriminant, None => implicit
        self.rename = rename        # None or string
        self.attrs = tuple(attrs)   # extra (foreign) attribute lines

    @property
    def name(self):
        return self.ident if self.rename is None else self.rename


class EnumSpec:
    def __init__(self, mod, repr_, variants, features, ident="En", tags=(), vis="pub", derives="Clone, Copy, EnumTools",
                 enum_attrs=(), split=False, context=""):
        self.mod = mod
        self.repr = repr_
        self.variants = variants
        self.features = features     # list of feature strings e.g. ['as_str(mode="table")', 'MIN']
        self.ident = ident
        self.tags = set(tags)
        self.vis = vis
        self.derives = derives
        self.enum_attrs = tuple(enum_attrs)
        self.split = split           # one #[enum_tools] attribute per feature
        self.context = context       # extra items placed in the module before the enum

    # ---- oracle ---------------------------------------------------------------------------
    def sorted_variants(self):
        return sorted(self.variants, key=lambda v: v.disc)

    def discs(self):
        return [v.disc for v in self.sorted_variants()]

    def runs(self):
        d = self.discs()
        out = []
        b = last = d[0]
        for x in d[1:]:
            if x != last + 1:
                out.append((b, last))
                b = x
            last = x
        out.append((b, last))
        return out

    def is_gapless(self):
        return len(self.runs()) == 1

    def shape(self):
        return "gapless" if self.is_gapless() else "holes"

    # ---- rendering ------------------------------------------------------------------------
    def render(self):
        lines = ["pub mod %s {" % self.mod, "    #[allow(unused_imports)] use enum_tools::EnumTools;"]
        if self.context:
            lines.append(self.context)
        lines.append("    #[derive(%s)]" % self.derives)
        if self.features:
            if self.split:
                for f in self.features:
                    lines.append("    #[enum_tools(%s)]" % f)
            else:
                lines.append("    #[enum_tools(%s)]" % ", ".join(self.features))
        for a in self.enum_attrs:
            lines.append("    " + a)
        lines.append("    #[repr(%s)]" % self.repr)
        lines.append("    %s enum %s {" % (self.vis, self.ident) if self.vis else "    enum %s {" % self.ident)
        for v in self.variants:
            for a in v.attrs:
                lines.append("        " + a)
            if v.rename is not None:
                lines.append("        #[enum_tools(rename = %s)]" % rust_str(v.rename))
            if v.spelling is None:
                lines.append("        %s," % v.ident)
            else:
                lines.append("        %s = %s," % (v.ident, v.spelling))
        lines.append("    }")
        lines.append("}")
        return "\n".join(lines)

    def describe(self):
        return {
            "mod": self.mod, "repr": self.repr, "shape": self.shape(), "features": self.features,
            "n": len(self.variants),
            "decl": [(v.ident, v.spelling, v.rename) for v in self.variants[:12]],
            "runs": self.runs()[:8],
        }


def ident_for(i):
    """A, B, …, Z, V26, V27 …"""
    if i < 26:
        return chr(ord('A') + i)
    return "V%d" % i


def mk_variants(discs, order="sorted", renames=None, rng=None, implicit_ok=True, spell=None):
    """variants for the given discriminants (ascending list); declaration order per `order`."""
    ds = list(discs)
    idx = list(range(len(ds)))
    if order == "reversed":
        idx.reverse()
    elif order == "shuffled":
        (rng or random.Random(1)).shuffle(idx)
    out = []
    prev = None
    for pos, i in enumerate(idx):
        d = ds[i]
        nxt = 0 if prev is None else prev + 1
        if implicit_ok and d == nxt and (rng is None or rng.random() < 0.5):
            sp = None
        else:
            sp = spell(d) if spell else str(d)
        rn = None
        if renames and i in renames:
            rn = renames[i]
        out.append(Variant(ident_for(i), d, sp, rn))
        prev = d
    return out


# ---------------------------------------------------------------------------------------------
# layer-T cells: one configuration per cell, two different enums per (repr, cell) for the
# uniformity obligation.
# ---------------------------------------------------------------------------------------------
T_CELLS = {
    # cell -> (shape, features)
    "H1": ("holes", ['as_str(mode="table")', 'from_str(mode="table")', 'FromStr(mode="table")', "Debug", "Display",
                     "IntoStr", "into", "Into", "try_from", "TryFrom", "MIN", "MAX", "next", "next_back",
                     'iter(mode="next_and_back")', "range", "names"]),
    "H2": ("holes", ['iter(mode="table")', "range", "names"]),
    "G1": ("gapless", ['as_str(mode="table")', 'from_str(mode="table")', 'FromStr(mode="table")', "Debug", "Display",
                       "IntoStr", "into", "Into", "try_from", "TryFrom", "MIN", "MAX", "next", "next_back",
                       'iter(mode="next_and_back")', "range", "names"]),
    "G2": ("gapless", ['iter(mode="range")', "range"]),
    "G3": ("gapless", ['iter(mode="table")', "range"]),
}


def t_cell_discs(repr_, shape, which):
    lo, hi = dom_min(repr_), dom_max(repr_)
    if lo == -(1 << 63):
        lo += 1  # i64::MIN itself is exercised by the C11 corpus (finding F3), not by the layer-T cells
    signed = REPRS[repr_][1]
    if shape == "gapless":
        if which == "a":
            return [3, 4, 5, 6]
        return [-2, -1, 0, 1, 2] if signed else [hi - 2, hi - 1, hi]
    if which == "a":
        return [1, 2, 3, 7, 9, 10]
    if signed:
        return [lo, lo + 1, -5, -4, 0, 100, hi]
    return [0, 1, 5, 100, 101, hi]


def t_cells(reprs=None):
    out = []
    for r in (reprs or REPRS):
        for cell, (shape, feats) in T_CELLS.items():
            for which in ("a", "b"):
                ds = t_cell_discs(r, shape, which)
                ren = {1: "two words", len(ds) - 1: "q\"\\{}"} if which == "b" else None
                vs = mk_variants(ds, order="sorted" if which == "a" else "reversed", renames=ren, implicit_ok=False)
                out.append(EnumSpec("t_%s_%s_%s" % (r, cell, which), r, vs, list(feats), ident="En" if which == "a" else "Other",
                                    tags={"T", cell, shape, which}))
    return out
