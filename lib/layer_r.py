"""Layer R — Kani on the real `Features::resolve` (DESIGN §3.3).

The harness crate includes /repo/src/{feature,generator,parser} by #[path]; the configuration is
fully symbolic (every enabled flag, every mode, shape, variant count, repr size), there are no
loops, so the result is complete over all configurations.  The dependency (`uses`) relation that the
closure contract speaks about is extracted from the real expansion of single-feature cells.
"""
import os
import re
import shutil
from . import corpus, expand
from .common import REPO, run, Undecided, log

FIELD = {  # feature name -> (Features field, mode enum, {mode string: variant})
    "as_str": ("as_str_fn", "AsStrMode", {"match": "Match", "table": "Table"}),
    "from_str": ("from_str_fn", "FromStrFnMode", {"match": "Match", "table": "Table"}),
    "FromStr": ("from_str_trait", "FromStrMode", {"match": "Match", "table": "Table"}),
    "Debug": ("debug_trait", None, {}),
    "Display": ("display_trait", None, {}),
    "IntoStr": ("into_str_trait", None, {}),
    "into": ("into_fn", None, {}),
    "Into": ("into_trait", None, {}),
    "MIN": ("min_const", None, {}),
    "MAX": ("max_const", None, {}),
    "next": ("next_fn", None, {}),
    "next_back": ("next_back_fn", None, {}),
    "try_from": ("try_from_fn", None, {}),
    "TryFrom": ("try_from_trait", None, {}),
    "iter": ("iter", "IterMode", {"range": "Range", "next_and_back": "NextAndBack", "table": "Table", "table_inline": "TableInline"}),
    "names": ("names", None, {}),
    "range": ("range_fn", None, {}),
}
HELPER_ROLE = {"MIN": "min_const", "MAX": "max_const", "RANGES": "table_range", "NAME": "table_name", "ENUM": "table_enum"}
METHOD_ROLE = {"as_str": "as_str_fn", "next": "next_fn", "next_back": "next_back_fn"}


def own_fn_keys(feat):
    return {
        "as_str": ["E::as_str"], "from_str": ["E::from_str"], "FromStr": ["FromStr[E]::from_str"], "Debug": ["Debug[E]::fmt"],
        "Display": ["Display[E]::fmt"], "IntoStr": ["From[Str]::from"], "into": ["E::into"], "Into": ["From[R]::from"],
        "MIN": [], "MAX": [], "next": ["E::next"], "next_back": ["E::next_back"], "try_from": ["E::try_from"],
        "TryFrom": ["TryFrom[E]::try_from"], "iter": ["E::iter", "*[EIter]::*"], "names": ["E::names", "*[ENames]::*"], "range": ["E::range"],
    }[feat]


def cells():
    """(cell id, feature, mode or None, iter mode for range cells or None, shape, feature strings)"""
    out = []
    for shape in ("gapless", "holes"):
        for feat, (_, _, modes) in FIELD.items():
            if feat == "range":
                for im in ("range", "next_and_back", "table"):
                    if im == "range" and shape == "holes":
                        continue
                    out.append(("range_%s_%s" % (im, shape), feat, None, im, shape, ['iter(mode="%s")' % im, "range"]))
            elif modes:
                for m in modes:
                    if feat == "iter" and m == "range" and shape == "holes":
                        continue
                    out.append(("%s_%s_%s" % (feat, m, shape), feat, m, None, shape, ['%s(mode="%s")' % (feat, m)]))
            else:
                out.append(("%s_%s" % (feat, shape), feat, None, None, shape, [feat]))
    return out


def uses_specs():
    specs = []
    for (cid, feat, mode, im, shape, feats) in cells():
        discs = [3, 4, 5, 6] if shape == "gapless" else [1, 2, 3, 7, 9, 10]
        vs = corpus.mk_variants(discs, implicit_ok=False)
        specs.append(corpus.EnumSpec("u_" + cid, "i16", vs, feats, ident="En", tags={"U"}))
    return specs


def compute_uses(scratch, target=None):
    """{cell id: {"feature", "mode", "iter_mode", "shape", "needs": sorted roles, "offset": bool}}"""
    specs = uses_specs()
    path, dt = expand.expand(scratch, specs, name="corpus_u", target=target)
    ext = expand.vx_extract(path)
    mods = {m["mod"]: m for m in ext["mods"]}
    out = {}
    for (cid, feat, mode, im, shape, feats) in cells():
        m = mods.get("u_" + cid)
        if m is None:
            raise Undecided("single-feature cell %s missing from the expansion" % cid)
        consts = {c["name"] for c in m["consts"]}
        inherent = {f["name"] for f in m["fns"] if f["owner_canon"] == "E" and f["trait"] is None}
        pats = own_fn_keys(feat)
        own = []
        for f in m["fns"]:
            for p in pats:
                if p == f["key"] or (p.startswith("*") and re.match(r"^\w+\[%s\]::\w+$" % re.escape(p[2:p.index("]")]), f["key"])):
                    own.append(f)
        needs = set()
        offset = False
        own_names = {f["name"] for f in own if f["owner_canon"] == "E" and f["trait"] is None}
        for f in own:
            for p in f["paths"]:
                seg = p.split("::")
                if len(seg) == 2 and seg[0] in ("Self", m["enum"]["ident"]) and seg[1] in consts:
                    role = HELPER_ROLE.get(seg[1].lstrip("_"))
                    if role:
                        needs.add(role)
                        if role == "table_range" and re.search(r"\. 1\b", f["raw"]):
                            offset = True
            for meth in f["methods"]:
                base = meth.lstrip("_")
                if meth in inherent and meth not in own_names and base in METHOD_ROLE:
                    needs.add(METHOD_ROLE[base])
            if feat == "range":
                needs.add("iter")
        # the feature's own field is not a dependency of itself
        needs.discard(FIELD[feat][0])
        out[cid] = {"feature": feat, "mode": mode, "iter_mode": im, "shape": shape, "needs": sorted(needs), "offset": offset}
    return out


HARNESS_HEAD = r'''#![allow(dead_code, unused_imports, unused_variables)]
#[path = "@REPO@/src/feature/mod.rs"]
mod feature;
#[path = "@REPO@/src/generator/mod.rs"]
mod generator;
#[path = "@REPO@/src/parser/mod.rs"]
mod parser;

fn main() {}

#[cfg(kani)]
mod harness {
    use crate::feature::as_str_fn::{AsStrMode, FeatureAsStrFn};
    use crate::feature::debug_trait::FeatureDebugTrait;
    use crate::feature::display_trait::FeatureDisplayTrait;
    use crate::feature::from_str_fn::{FeatureFromStrFn, FromStrFnMode};
    use crate::feature::from_str_trait::{FeatureFromStrTrait, FromStrMode};
    use crate::feature::into_fn::FeatureIntoFn;
    use crate::feature::into_str_trait::FeatureIntoStrTrait;
    use crate::feature::into_trait::FeatureIntoTrait;
    use crate::feature::iter::{FeatureIter, IterMode};
    use crate::feature::max_const::FeatureMaxConst;
    use crate::feature::min_const::FeatureMinConst;
    use crate::feature::names::FeatureNames;
    use crate::feature::next_back_fn::FeatureNextBackFn;
    use crate::feature::next_fn::FeatureNextFn;
    use crate::feature::range_fn::FeatureRangeFn;
    use crate::feature::table_enum::FeatureTableEnum;
    use crate::feature::table_name::FeatureTableName;
    use crate::feature::table_range::FeatureTableRange;
    use crate::feature::try_from_fn::FeatureTryFromFn;
    use crate::feature::try_from_trait::FeatureTryFromTrait;
    use crate::generator::features::Features;
    use crate::generator::{Derive, Mode};
    use core::mem::{ManuallyDrop, MaybeUninit};
    use proc_macro2::Span;
    use syn::Visibility;

    static mut REQ_ILLEGAL: bool = false;

    /// `abort!` of proc_macro_error: the configuration is rejected — the path ends here.  Completeness:
    /// only the three documented-illegal requests may be rejected (C10: every documented combination
    /// can be derived)
    fn abort_stub(_d: proc_macro_error::Diagnostic) -> ! {
        assert!(unsafe { REQ_ILLEGAL }, "R:complete:legal-configuration-is-not-rejected");
        kani::assume(false);
        loop {}
    }

    fn any_as_str_mode() -> AsStrMode { match kani::any::<u8>() % 3 { 0 => AsStrMode::Auto, 1 => AsStrMode::Match, _ => AsStrMode::Table } }
    fn any_from_str_fn_mode() -> FromStrFnMode { match kani::any::<u8>() % 3 { 0 => FromStrFnMode::Auto, 1 => FromStrFnMode::Match, _ => FromStrFnMode::Table } }
    fn any_from_str_mode() -> FromStrMode { match kani::any::<u8>() % 3 { 0 => FromStrMode::Auto, 1 => FromStrMode::Match, _ => FromStrMode::Table } }
    fn any_iter_mode() -> IterMode { match kani::any::<u8>() % 5 { 0 => IterMode::Auto, 1 => IterMode::Range, 2 => IterMode::NextAndBack, 3 => IterMode::Table, _ => IterMode::TableInline } }

    #[kani::proof]
    #[kani::stub(proc_macro_error::Diagnostic::abort, abort_stub)]
    fn resolve_contract() {
        let gapless: bool = kani::any();
        let num_values: usize = kani::any();
        kani::assume(num_values >= 1 && num_values < 65535);
        let size: usize = match kani::any::<u8>() % 5 { 0 => 1, 1 => 2, 2 => 4, 3 => 8, _ => 16 };
        // the three identifiers are never read by resolve; Ident::new cannot be compiled by Kani
        let derive = ManuallyDrop::new(Derive {
            repr: unsafe { MaybeUninit::uninit().assume_init() },
            repr_size_guessed: size,
            repr_unsigned: unsafe { MaybeUninit::uninit().assume_init() },
            ident_enum: unsafe { MaybeUninit::uninit().assume_init() },
            vis_enum: Visibility::Inherited,
            min_key: 0,
            max_key: 0,
            num_values,
            values: Vec::new(),
            mode: if gapless { Mode::Gapless } else { Mode::WithHoles { value_ranges: Vec::new() } },
        });
        let span = Span::call_site();
        let mut f = ManuallyDrop::new(Features {
            as_str_fn: FeatureAsStrFn { enabled: kani::any(), vis: None, name: String::new(), mode: any_as_str_mode() },
            debug_trait: FeatureDebugTrait { enabled: kani::any() },
            display_trait: FeatureDisplayTrait { enabled: kani::any() },
            from_str_fn: FeatureFromStrFn { enabled: kani::any(), vis: None, name: String::new(), mode: any_from_str_fn_mode() },
            from_str_trait: FeatureFromStrTrait { enabled: kani::any(), mode: any_from_str_mode() },
            into_fn: FeatureIntoFn { enabled: kani::any(), vis: None, name: String::new() },
            into_str_trait: FeatureIntoStrTrait { enabled: kani::any() },
            into_trait: FeatureIntoTrait { enabled: kani::any() },
            iter: FeatureIter { enabled: kani::any(), vis: None, name: String::new(), span, struct_name: None, mode: any_iter_mode() },
            max_const: FeatureMaxConst { enabled: kani::any(), vis: None, name: String::new() },
            min_const: FeatureMinConst { enabled: kani::any(), vis: None, name: String::new() },
            names: FeatureNames { enabled: kani::any(), vis: None, name: String::new(), struct_name: None },
            next_back_fn: FeatureNextBackFn { enabled: kani::any(), vis: None, name: String::new() },
            next_fn: FeatureNextFn { enabled: kani::any(), vis: None, name: String::new() },
            range_fn: FeatureRangeFn { enabled: kani::any(), vis: None, name: String::new(), span },
            table_enum: FeatureTableEnum { enabled: false },
            table_name: FeatureTableName { enabled: false },
            table_range: FeatureTableRange { enabled: false, with_offset: false },
            try_from_fn: FeatureTryFromFn { enabled: kani::any(), vis: None, name: String::new() },
            try_from_trait: FeatureTryFromTrait { enabled: kani::any() },
        });
        // the user's request, before resolution
        let req = (f.as_str_fn.enabled, f.debug_trait.enabled, f.display_trait.enabled, f.from_str_fn.enabled, f.from_str_trait.enabled,
                   f.into_fn.enabled, f.into_str_trait.enabled, f.into_trait.enabled, f.iter.enabled, f.max_const.enabled, f.min_const.enabled,
                   f.names.enabled, f.next_back_fn.enabled, f.next_fn.enabled, f.range_fn.enabled, f.try_from_fn.enabled, f.try_from_trait.enabled);
        let req_as_str_explicit = f.as_str_fn.enabled && f.as_str_fn.mode != AsStrMode::Auto;
        let req_as_str_mode_table = f.as_str_fn.mode == AsStrMode::Table;
        let req_from_str_fn_explicit = f.from_str_fn.enabled && f.from_str_fn.mode != FromStrFnMode::Auto;
        let req_from_str_fn_table = f.from_str_fn.mode == FromStrFnMode::Table;
        let req_from_str_explicit = f.from_str_trait.enabled && f.from_str_trait.mode != FromStrMode::Auto;
        let req_from_str_table = f.from_str_trait.mode == FromStrMode::Table;
        let req_iter_mode = f.iter.mode;
        let req_range = f.range_fn.enabled;
        let req_iter = f.iter.enabled;

        unsafe {
            REQ_ILLEGAL = (req_range && !req_iter) || (req_range && req_iter_mode == IterMode::TableInline)
                || (req_iter && req_iter_mode == IterMode::Range && !gapless);
        }
        f.resolve(&derive);

        // ---- returns normally => none of the three illegal configurations (C13 clauses in resolve)
        assert!(!(req_range && !req_iter), "R:legal:range-needs-iter");
        assert!(!(req_range && req_iter_mode == IterMode::TableInline), "R:legal:range-not-table_inline");
        assert!(!(req_iter && req_iter_mode == IterMode::Range && !gapless), "R:legal:iter-range-needs-gapless");
        // ---- nothing the user asked for is dropped, explicit modes are kept (C09)
        assert!(!req.0 || f.as_str_fn.enabled, "R:keep:as_str");
        assert!(!req.1 || f.debug_trait.enabled, "R:keep:Debug");
        assert!(!req.2 || f.display_trait.enabled, "R:keep:Display");
        assert!(!req.3 || f.from_str_fn.enabled, "R:keep:from_str");
        assert!(!req.4 || f.from_str_trait.enabled, "R:keep:FromStr");
        assert!(!req.5 || f.into_fn.enabled, "R:keep:into");
        assert!(!req.6 || f.into_str_trait.enabled, "R:keep:IntoStr");
        assert!(!req.7 || f.into_trait.enabled, "R:keep:Into");
        assert!(!req.8 || f.iter.enabled, "R:keep:iter");
        assert!(!req.9 || f.max_const.enabled, "R:keep:MAX");
        assert!(!req.10 || f.min_const.enabled, "R:keep:MIN");
        assert!(!req.11 || f.names.enabled, "R:keep:names");
        assert!(!req.12 || f.next_back_fn.enabled, "R:keep:next_back");
        assert!(!req.13 || f.next_fn.enabled, "R:keep:next");
        assert!(!req.14 || f.range_fn.enabled, "R:keep:range");
        assert!(!req.15 || f.try_from_fn.enabled, "R:keep:try_from");
        assert!(!req.16 || f.try_from_trait.enabled, "R:keep:TryFrom");
        assert!(!req_as_str_explicit || (f.as_str_fn.mode == AsStrMode::Table) == req_as_str_mode_table, "R:keepmode:as_str");
        assert!(!req_from_str_fn_explicit || (f.from_str_fn.mode == FromStrFnMode::Table) == req_from_str_fn_table, "R:keepmode:from_str");
        assert!(!req_from_str_explicit || (f.from_str_trait.mode == FromStrMode::Table) == req_from_str_table, "R:keepmode:FromStr");
        assert!(!(req_iter && req_iter_mode != IterMode::Auto) || f.iter.mode == req_iter_mode, "R:keepmode:iter");
        // ---- every auto is resolved to a mode that exists and is legal for the shape (C09, C06)
        assert!(!f.as_str_fn.enabled || f.as_str_fn.mode != AsStrMode::Auto, "R:auto:as_str");
        assert!(!f.from_str_fn.enabled || f.from_str_fn.mode != FromStrFnMode::Auto, "R:auto:from_str");
        assert!(!f.from_str_trait.enabled || f.from_str_trait.mode != FromStrMode::Auto, "R:auto:FromStr");
        assert!(!f.iter.enabled || f.iter.mode != IterMode::Auto, "R:auto:iter");
        assert!(!(f.iter.enabled && f.iter.mode == IterMode::Range) || gapless, "R:mode:iter-range-only-gapless");
        assert!(!f.range_fn.enabled || (f.iter.enabled && f.iter.mode != IterMode::TableInline), "R:mode:range-has-iter-not-inline");
        // ---- dependency closure (C10 i): generated from the real expansion of single-feature cells
@CLOSURE@
    }
}
'''

DEP_FIELD = {"min_const": "min_const", "max_const": "max_const", "table_range": "table_range", "table_name": "table_name",
             "table_enum": "table_enum", "as_str_fn": "as_str_fn", "next_fn": "next_fn", "next_back_fn": "next_back_fn", "iter": "iter"}


def cell_condition(c):
    field, menum, modes = FIELD[c["feature"]]
    cond = ["f.%s.enabled" % field]
    if c["mode"]:
        cond.append("f.%s.mode == %s::%s" % (field, menum, modes[c["mode"]]))
    if c["iter_mode"]:
        cond.append("f.iter.mode == IterMode::%s" % FIELD["iter"][2][c["iter_mode"]])
    cond.append("gapless" if c["shape"] == "gapless" else "!gapless")
    return " && ".join(cond)


def gen_harness(uses):
    lines = []
    expect = []
    for cid, c in sorted(uses.items()):
        cond = cell_condition(c)
        lines.append("        kani::cover!(%s, \"R:cover:%s\");" % (cond, cid))
        expect.append(("cover", "R:cover:%s" % cid))
        for dep in c["needs"]:
            msg = "R:closure:%s:%s" % (cid, dep)
            lines.append("        assert!(!(%s) || f.%s.enabled, \"%s\");" % (cond, DEP_FIELD[dep], msg))
            expect.append(("assert", msg))
        if c["offset"]:
            msg = "R:closure:%s:table_range.with_offset" % cid
            lines.append("        assert!(!(%s) || f.table_range.with_offset, \"%s\");" % (cond, msg))
            expect.append(("assert", msg))
    return HARNESS_HEAD.replace("@REPO@", REPO).replace("@CLOSURE@", "\n".join(lines)), expect


CARGO = """[package]
name = "resolve_kani"
version = "0.0.0"
edition = "2021"

[dependencies]
%s

[workspace]
"""


def repo_dependencies():
    """the [dependencies] section of /repo/Cargo.toml, verbatim"""
    txt = open(os.path.join(REPO, "Cargo.toml")).read()
    m = re.search(r"^\[dependencies\]\n(.*?)(?=^\[)", txt, re.S | re.M)
    if not m:
        raise Undecided("cannot find [dependencies] in /repo/Cargo.toml")
    return m.group(1).strip()


def run_layer_r(scratch, target=None):
    uses = compute_uses(scratch, target=target)
    d = os.path.join(scratch, "resolve_kani")
    os.makedirs(os.path.join(d, "src"), exist_ok=True)
    os.makedirs(os.path.join(d, ".cargo"), exist_ok=True)
    with open(os.path.join(d, ".cargo", "config.toml"), "w") as f:
        f.write("[net]\noffline = true\n")
    with open(os.path.join(d, "Cargo.toml"), "w") as f:
        f.write(CARGO % repo_dependencies())
    lock = os.path.join(REPO, "Cargo.lock")
    if os.path.exists(lock):
        shutil.copy(lock, os.path.join(d, "Cargo.lock"))
    src, expect = gen_harness(uses)
    expect.append(("assert", "R:complete:legal-configuration-is-not-rejected"))
    with open(os.path.join(d, "src", "main.rs"), "w") as f:
        f.write(src)
    rc, out, err, dt = run(["cargo", "kani", "-Z", "stubbing", "--harness", "resolve_contract"], cwd=d,
                           env={"CARGO_TARGET_DIR": os.path.join(scratch, "kani-target")}, timeout=3000)
    res = {"uses": uses, "wall_s": dt, "checks": {}, "covers": {}, "error": None, "kani_summary": ""}
    if "VERIFICATION:-" not in out:
        res["error"] = "kani did not complete (construct outside its reach, or the harness no longer matches the Features/Derive structs):\n" + (out[-1500:] + "\n" + err[-2500:])
        return res
    for m in re.finditer(r"Check \d+: [^\n]*\n\s*- Status: (\w+)\n\s*- Description: \"+([^\"\n]*)\"+", out):
        st, desc = m.group(1), m.group(2)
        if desc.startswith("R:cover:"):
            res["covers"][desc] = st
        elif desc.startswith("R:"):
            res["checks"][desc] = st
    m = re.search(r"SUMMARY:.*?(?=\n\n\n|\Z)", out, re.S)
    res["kani_summary"] = (m.group(0) if m else "")[:600]
    res["stub_applied"] = "abort_stub" in out or "Stub" in out
    m = re.search(r"Verification Time: ([\d.]+)s", out)
    res["verification_s"] = float(m.group(1)) if m else None
    res["expected"] = expect
    # other failing checks (Kani's own: overflow, pointer…) inside resolve
    fails = re.findall(r"Check \d+: ([^\n]*)\n\s*- Status: FAILURE\n\s*- Description: \"+([^\"\n]*)\"+\n\s*- Location: ([^\n]*)", out)
    res["other_failures"] = [f for f in fails if not f[1].startswith("R:")][:10]
    # counterexamples: for every refuted assertion ask Kani for a concrete configuration
    res["counterexamples"] = {}
    if any(v == "FAILURE" for v in res["checks"].values()):
        rc2, out2, err2, dt2 = run(["cargo", "kani", "-Z", "stubbing", "-Z", "concrete-playback", "--concrete-playback=print", "--harness", "resolve_contract"],
                                   cwd=d, env={"CARGO_TARGET_DIR": os.path.join(scratch, "kani-target")}, timeout=3000)
        res["wall_s"] += dt2
        res["counterexamples"] = decode_playback(out2)
    return res


ANY_ORDER = ["gapless", "num_values", "size_sel", "as_str", "as_str_mode", "Debug", "Display", "from_str", "from_str_mode", "FromStr", "FromStr_mode",
             "into", "IntoStr", "Into", "iter", "iter_mode", "MAX", "MIN", "names", "next_back", "next", "range", "try_from", "TryFrom"]


def decode_playback(out):
    """{assertion description: configuration} from Kani's printed concrete-playback tests; the order of
    the values is the order of the kani::any() calls in the harness (ANY_ORDER)"""
    cex = {}
    for blk in re.split(r"(?=/// Test generated for harness)", out):
        m = re.search(r"/// Check for `\w+`: \"+([^\"\n]+)\"+", blk)
        if not m or not m.group(1).startswith("R:") or m.group(1).startswith("R:cover:"):
            continue
        vals = [[int(x) for x in v.split(",") if x.strip()] for v in re.findall(r"vec!\[([0-9, ]*)\],", blk)]
        if len(vals) < len(ANY_ORDER):
            continue
        raw = dict(zip(ANY_ORDER, vals))
        b = lambda k: raw[k][0] % 2 == 1
        cfg = {"gapless": b("gapless"), "num_values": int.from_bytes(bytes(raw["num_values"]), "little"),
               "repr_size": [1, 2, 4, 8, 16][raw["size_sel"][0] % 5], "features": []}
        modes = {"as_str": ["auto", "match", "table"], "from_str": ["auto", "match", "table"], "FromStr": ["auto", "match", "table"],
                 "iter": ["auto", "range", "next_and_back", "table", "table_inline"]}
        for f in ("as_str", "Debug", "Display", "from_str", "FromStr", "into", "IntoStr", "Into", "iter", "MAX", "MIN", "names", "next_back", "next", "range", "try_from", "TryFrom"):
            if b(f):
                if f in modes:
                    mm = modes[f][raw[f + "_mode"][0] % len(modes[f])]
                    cfg["features"].append(f if mm == "auto" else '%s(mode="%s")' % (f, mm))
                else:
                    cfg["features"].append(f)
        cex[m.group(1)] = cfg
    return cex


def spec_from_config(cfg, name):
    """a corpus enum realising a configuration found by Kani (shape, variant count x repr size, features)"""
    size = cfg["repr_size"]
    repr_ = {1: "u8", 2: "u16", 4: "u32", 8: "u64", 16: "u128"}[size]
    n = cfg["num_values"]
    small = n * size <= 8
    if not small:
        n = max(9 // size + 1, min(n, 12))
    n = max(n, 1 if cfg["gapless"] else 2)
    if repr_ == "u8":
        n = min(n, 200)
    discs = list(range(n)) if cfg["gapless"] else list(range(n - 1)) + [n + 3]
    vs = corpus.mk_variants(discs, implicit_ok=False)
    return corpus.EnumSpec(name, repr_, vs, list(cfg["features"]), ident="En", tags={"cex"})
