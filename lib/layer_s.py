"""Layer S — structural obligations on the real expansion and finite catalogues decided by rustc
(DESIGN §3.5): C09 (d), C10 (ii)-(iv), C15, C16, C17, C18, C19.  Level `other`/bounded as labelled."""
import os
import random
import re
from . import corpus, expand, layer_i, layer_r, overlay
from .common import REPO, REPRS, VERIF, dom_min, dom_max, run, Undecided, log
from .corpus import EnumSpec, Variant, mk_variants, CFG
from .layer_t import helper_norm

PRIMS = {"u8", "u16", "u32", "u64", "u128", "usize", "i8", "i16", "i32", "i64", "i128", "isize", "str", "bool", "char"}


def norm_body(text):
    return helper_norm(re.sub(r"\s+", " ", text))


def mods_of(scratch, specs, name, target):
    path, dt = expand.expand(scratch, specs, name=name, target=target)
    ext = expand.vx_extract(path)
    return {m["mod"]: m for m in ext["mods"]}, open(path).read()


# ---------------------------------------------------------------------------------------------
# C09 (a): one postcondition per feature — the overlay's spec text is identical across modes
# ---------------------------------------------------------------------------------------------
def c09_spec_identity():
    entries = overlay.parse()
    by_key = {}
    for e in entries:
        if e.key.startswith("item:"):
            continue
        sp = re.sub(r"\s+", " ", (e.get("spec") or "")).replace("=~=", "==").strip()
        by_key.setdefault(e.key, {})[",".join(sorted(e.tags))] = sp
    out = []
    for k, d in sorted(by_key.items()):
        # lit clauses / requires differ by nothing; compare ensures+requires text as a whole
        distinct = set(d.values())
        out.append({"id": "S/spec-identity/%s" % k, "ok": len(distinct) == 1, "detail": "" if len(distinct) == 1 else "contracts differ between %s" % sorted(d)})
    return out


# ---------------------------------------------------------------------------------------------
# C09 (d): under `auto`, every body is token-identical to the body of one explicit mode
# ---------------------------------------------------------------------------------------------
EXPLICIT = {
    "x_match": ['as_str(mode="match")', 'from_str(mode="match")', 'FromStr(mode="match")', 'iter(mode="next_and_back")', "range", "names", "Debug",
                "Display", "IntoStr", "into", "Into", "try_from", "TryFrom", "MIN", "MAX", "next", "next_back"],
    "x_table": ['as_str(mode="table")', 'from_str(mode="table")', 'FromStr(mode="table")', 'iter(mode="table")', "range", "names", "Debug",
                "Display", "IntoStr", "into", "Into", "try_from", "TryFrom", "MIN", "MAX", "next", "next_back"],
    "x_inline": ['iter(mode="table_inline")'],
    "x_range": ['iter(mode="range")', "range"],
}
AUTO = {
    "a_all": CFG["ALL_AUTO"],
    "a_as_str": ["as_str"],
    "a_as_str_names": ["as_str", "names"],
    "a_two_autos": ["as_str", "from_str"],
    "a_iter": ["iter"],
    "a_iter_range": ["iter", "range"],
    "a_iter_fromstr_table": ["iter", 'from_str(mode="table")'],
    "a_debug": ["Debug"],
    "a_fromstr_display": ["FromStr", "Display"],
    "a_fromstr_names": ["FromStr", "names", "IntoStr"],
    "a_next_iter": ["next", "next_back", "iter", "try_from"],
}
USER_FEATURES = ["as_str", "from_str", "FromStr", "Debug", "Display", "IntoStr", "into", "Into", "try_from", "TryFrom", "MIN", "MAX",
                 "next", "next_back", "iter", "range", "names"]


def c09_specs(seed, tier):
    rng = random.Random(seed + 9)
    enums = [("i8", [-3, -2, -1, 0, 1], "g"), ("i8", [-100, -99, -5, 0, 1, 100], "h"), ("u16", [0, 1, 2, 3, 4, 5, 6, 7, 8], "g9"),
             ("u64", [1, 2, 3, 1000, 1001], "h2"), ("i32", [7], "one"), ("u8", [0, 2, 4], "h3")]
    out = []
    for r, ds, tag in enums:
        gap = all(b - a == 1 for a, b in zip(ds, ds[1:]))
        cfgs = dict(EXPLICIT)
        if not gap:
            cfgs.pop("x_range")
        autos = dict(AUTO)
        for k in range(4 if tier == "quick" else 24):
            n = rng.randint(1, len(USER_FEATURES))
            fs = rng.sample(USER_FEATURES, n)
            if "range" in fs and "iter" not in fs:
                fs.append("iter")
            autos["a_rand%d" % k] = fs
        for cname, feats in list(cfgs.items()) + list(autos.items()):
            ren = {0: "re named"}
            if len(ds) >= 3:
                ren[len(ds) - 1] = "re named"     # two variants share a name: every mode must pick the same one
            vs = mk_variants(ds, order="shuffled", rng=random.Random(3), implicit_ok=False, renames=ren)
            out.append(EnumSpec("c9_%s_%s_%s" % (r, tag, cname), r, vs, list(feats), ident="En", tags={"C09", "%s_%s" % (r, tag), cname}))
    return out


def c09_auto_bodies(mods, specs):
    out = []
    groups = {}
    for s in specs:
        g = [t for t in s.tags if re.match(r"^[iu]\d+_|^[iu]size_", t)][0]
        groups.setdefault(g, []).append(s)
    for g, ss in sorted(groups.items()):
        explicit = {}
        for s in ss:
            cname = [t for t in s.tags if t.startswith("x_")]
            if cname and s.mod in mods:
                for f in mods[s.mod]["fns"]:
                    explicit.setdefault(helper_norm(f["key"]), set()).add(norm_body(f["canon"]))
                for st in mods[s.mod]["structs"]:
                    explicit.setdefault("struct:" + st["canon"], set()).add(norm_body(" ".join(x["name"] + ":" + x["ty_canon"] for x in st["fields"])))
        for s in ss:
            if any(t.startswith("x_") for t in s.tags):
                continue
            bad = []
            if s.mod not in mods:
                # rejected by the macro / rustc on this tree: reported by the compile checks, nothing to compare here
                out.append({"id": "S/auto-body/%s" % s.mod, "ok": False, "undecided_if_bad": True,
                            "detail": "the module was rejected by the macro or rustc, so its bodies cannot be compared", "sample": {"enum": g, "features": s.features}})
                continue
            for f in mods[s.mod]["fns"]:
                k = helper_norm(f["key"])
                if norm_body(f["canon"]) not in explicit.get(k, set()):
                    bad.append(f["key"])
            for st in mods[s.mod]["structs"]:
                if norm_body(" ".join(x["name"] + ":" + x["ty_canon"] for x in st["fields"])) not in explicit.get("struct:" + st["canon"], set()):
                    bad.append("struct " + st["name"])
            out.append({"id": "S/auto-body/%s" % s.mod, "ok": not bad,
                        "detail": "" if not bad else "bodies under auto that equal no explicit mode's body of the same enum: %s" % ", ".join(bad),
                        "sample": {"enum": g, "features": s.features}})
    return out


# ---------------------------------------------------------------------------------------------
# C10: documented catalogue, base cases, split attributes
# ---------------------------------------------------------------------------------------------
def parse_rustdoc():
    """features, their documented modes and parameters, from the rustdoc of lib.rs"""
    txt = open(os.path.join(REPO, "src", "lib.rs")).read()
    lines = [l[3:].rstrip() if l.startswith("///") else None for l in txt.split("\n")]
    doc = [l[1:] if l and l.startswith(" ") else (l or "") for l in lines if l is not None]
    feats = {}
    cur = None
    section = None
    in_mode = False
    common = {"name": True, "vis": ['""', '"pub(crate)"', '"pub"']}
    fence = False
    for l in doc:
        if l.strip().startswith("```"):
            fence = not fence
            continue
        if fence:
            continue
        m = re.match(r"^# (.*)$", l)
        if m:
            section = m.group(1).strip()
            cur = None
            continue
        m = re.match(r"^## (\w+)\s*$", l)
        if m and section and ("Features" in section or "features" in section):
            cur = m.group(1)
            feats[cur] = {"section": section, "modes": [], "params": [], "sig": None}
            in_mode = False
            continue
        if cur is None:
            continue
        m = re.match(r"^`(\$vis .*)`\s*$", l)
        if m and feats[cur]["sig"] is None:
            feats[cur]["sig"] = m.group(1)
        m = re.match(r"^- `(\w+)`(?:, `(\w+)`)?(.*)$", l)
        if m:
            in_mode = m.group(1) == "mode"
            for nm in (m.group(1), m.group(2)):
                if nm and nm != "mode":
                    feats[cur]["params"].append(nm)
            continue
        m = re.match(r"^\s+- `\"(\w+)\"`", l)
        if m and in_mode:
            feats[cur]["modes"].append(m.group(1))
    return feats


def c10_catalogue_specs(doc):
    """one derive per documented (feature, mode) and (feature, parameter value), gapless and with holes"""
    out = []
    expect_reject = {}
    for shape, ds in (("g", [2, 3, 4, 5]), ("h", [1, 2, 5, 9])):
        for feat, d in sorted(doc.items()):
            if feat == "sorted":
                variants = [("sorted(name)", "name"), ("sorted(value)", "value"), ("sorted(name, value)", "both")]
                for ftxt, tag in variants:
                    vs = mk_variants(ds, implicit_ok=False)
                    out.append(EnumSpec("d_%s_sorted_%s" % (shape, tag), "i16", vs, [ftxt], tags={"C10", "doc"}))
                continue
            base_extra = ["iter"] if feat == "range" else []
            combos = [("plain", feat)]
            for m in d["modes"]:
                combos.append(("mode_" + m, '%s(mode="%s")' % (feat, m)))
            for p in d["params"]:
                if p == "name":
                    combos.append(("name", '%s(name="custom_%s")' % (feat, feat.lower())))
                elif p == "vis":
                    for i, v in enumerate(['', 'pub(crate)', 'pub']):
                        combos.append(("vis%d" % i, '%s(vis="%s")' % (feat, v)))
                elif p == "struct_name":
                    combos.append(("struct_name", '%s(struct_name="Custom%s")' % (feat, feat.capitalize())))
            for tag, ftxt in combos:
                if feat == "iter" and tag == "mode_range" and shape == "h":
                    continue   # documented as gapless only
                vs = mk_variants(ds, implicit_ok=False)
                out.append(EnumSpec("d_%s_%s_%s" % (shape, feat, tag), "i16", vs, base_extra + [ftxt], tags={"C10", "doc", feat, tag}))
    return out


def c10_split_specs():
    out = []
    for shape, ds in (("g", [2, 3, 4, 5]), ("h", [1, 2, 5, 9])):
        for cname in ("ALL_TABLE", "ALL_AUTO", "ALL_MATCH"):
            for split in (False, True):
                vs = mk_variants(ds, implicit_ok=False)
                out.append(EnumSpec("sp_%s_%s_%s" % (shape, cname.lower(), "split" if split else "one"), "i32", vs, list(CFG[cname]), tags={"C10", "split"}, split=split))
    return out


def c10_base_specs():
    """every single-feature cell x 12 reprs"""
    out = []
    for r in REPRS:
        for (cid, feat, mode, im, shape, feats) in layer_r.cells():
            hi = dom_max(r)
            discs = [3, 4, 5, 6] if shape == "gapless" else [1, 2, 3, 7, 9, hi]
            vs = mk_variants(discs, implicit_ok=False)
            out.append(EnumSpec("b_%s_%s" % (r, cid), r, vs, feats, ident="En", tags={"C10", "base"}))
    return out


def token_identity(mods, a, b, what=("fns", "consts", "structs")):
    if a not in mods or b not in mods:
        # one declaration is accepted and the other rejected: a difference; both rejected: nothing to compare
        return [] if (a not in mods and b not in mods) else ["<%s is rejected by the macro or rustc, %s is not>" % ((a, b) if a not in mods else (b, a))]
    ma, mb = mods[a], mods[b]
    diffs = []
    fa = {f["key"]: norm_body(f["canon"]) + "|" + f["sig"].replace(ma["enum"]["ident"], "E") for f in ma["fns"]}
    fb = {f["key"]: norm_body(f["canon"]) + "|" + f["sig"].replace(mb["enum"]["ident"], "E") for f in mb["fns"]}
    if fa != fb:
        diffs += sorted(k for k in set(fa) | set(fb) if fa.get(k) != fb.get(k))
    ca = {c["name"]: (c["vis"], c["ty"], c["init"]) for c in ma["consts"]}
    cb = {c["name"]: (c["vis"], c["ty"], c["init"]) for c in mb["consts"]}
    if ca != cb:
        diffs += sorted("const " + k for k in set(ca) | set(cb) if ca.get(k) != cb.get(k))
    sa = {s["name"]: (s["vis"], [(f["name"], f["ty"]) for f in s["fields"]]) for s in ma["structs"]}
    sb = {s["name"]: (s["vis"], [(f["name"], f["ty"]) for f in s["fields"]]) for s in mb["structs"]}
    if sa != sb:
        diffs += sorted("struct " + k for k in set(sa) | set(sb) if sa.get(k) != sb.get(k))
    ia = sorted((i["trait"] or "", i["self_ty"], tuple(i["items"])) for i in ma["impls"])
    ib = sorted((i["trait"] or "", i["self_ty"], tuple(i["items"])) for i in mb["impls"])
    if ia != ib:
        diffs.append("impl set")
    return diffs


# ---------------------------------------------------------------------------------------------
# C15: names / visibilities / helper privacy
# ---------------------------------------------------------------------------------------------
NAMEABLE = ["as_str", "from_str", "into", "MIN", "MAX", "next", "next_back", "try_from", "iter", "names", "range"]


def c15_specs():
    out = []
    enum_vis = [("priv", ""), ("crate", "pub(crate)"), ("pub", "pub"), ("super", "pub(super)"), ("inpath", None)]
    for shape, ds in (("g", [2, 3, 4, 5]), ("h", [1, 2, 5, 9])):
        for evn, ev in enum_vis:
            for fvn, fv in (("dflt", None), ("empty", ""), ("crate", "pub(crate)"), ("pub", "pub")):
                # an item more visible than the enum itself is rejected by rustc (private type in public interface)
                if (fvn == "pub" and evn != "pub") or (fvn == "crate" and evn not in ("pub", "crate")):
                    continue
                feats = []
                for f in NAMEABLE:
                    ps = ['name="x_%s"' % f.lower()]
                    if fv is not None:
                        ps.append('vis="%s"' % fv)
                    if f in ("iter", "names"):
                        ps.append('struct_name="X%s"' % f.capitalize())
                    feats.append("%s(%s)" % (f, ", ".join(ps)))
                feats += ["Debug", "Display", "IntoStr", "FromStr", "Into", "TryFrom"]
                mod = "v_%s_%s_%s" % (shape, evn, fvn)
                vis = ev if ev is not None else "pub(in crate::%s)" % mod
                vs = mk_variants(ds, implicit_ok=False)
                out.append(EnumSpec(mod, "i16", vs, feats, ident="En", vis=vis, tags={"C15", "renamed", fvn, evn}))
        # every iter mode under custom names (dependent features must use the custom names)
        for im in (["range", "next_and_back", "table"] if shape == "g" else ["next_and_back", "table"]):
            feats = []
            for f in NAMEABLE:
                ps = ['name="y_%s"' % f.lower()]
                if f == "iter":
                    ps.append('mode="%s"' % im)
                if f in ("iter", "names"):
                    ps.append('struct_name="Y%s"' % f.capitalize())
                feats.append("%s(%s)" % (f, ", ".join(ps)))
            feats += ['as_str(name="y_as_str", mode="table")'] if False else []
            vs = mk_variants(ds, implicit_ok=False)
            out.append(EnumSpec("v_%s_modes_%s" % (shape, im), "i16", vs, feats + ["Debug", "FromStr", "TryFrom"], ident="En", vis="pub", tags={"C15", "renamed", "itermode"}))
            # default names for the user-requested helpers of range/iter (MIN, MAX, next, next_back requested by the user)
            vs = mk_variants(ds, implicit_ok=False)
            out.append(EnumSpec("v_%s_userhelpers_%s" % (shape, im), "i16", vs, ["MIN", "MAX", "next", "next_back", "as_str", 'iter(mode="%s")' % im, "range", "names"],
                                ident="En", vis="pub", tags={"C15", "userhelpers"}))
        # independent visibilities per feature on a pub enum
        vr = random.Random(15 if shape == "g" else 16)
        for k in range(6):
            feats = []
            for f in NAMEABLE:
                v = vr.choice([None, "", "pub(crate)", "pub"])
                feats.append(f if v is None else '%s(vis="%s")' % (f, v))
            vs = mk_variants(ds, implicit_ok=False)
            out.append(EnumSpec("v_%s_mixedvis_%d" % (shape, k), "i16", vs, feats, ident="En", vis="pub", tags={"C15", "mixedvis"}))
        # helpers only: features whose dependencies are auto-enabled, nothing named by the user
        for hn, feats in (("debug", ["Debug"]), ("iter_nab", ['iter(mode="next_and_back")']), ("from_table", ['FromStr(mode="table")']),
                          ("range_tbl", ['iter(mode="table")', "range"]), ("tryfrom", ["TryFrom"]), ("names", ["names"]), ("intostr", ["IntoStr"])):
            for evn, ev in (("pub", "pub"), ("priv", "")):
                vs = mk_variants(ds, implicit_ok=False)
                out.append(EnumSpec("v_%s_helpers_%s_%s" % (shape, hn, evn), "i16", vs, feats, ident="En", vis=ev, tags={"C15", "helpers"}))
    return out


def c15_check(mods, specs):
    out = []
    for s in specs:
        if s.mod not in mods:
            continue      # rejected: reported as S/surface-compiles
        m = mods[s.mod]
        cfg = s.cfg
        bad = []
        enum_vis = m["enum"]["vis"]
        items = {}
        for f in m["fns"]:
            if f["owner_canon"] == "E" and f["trait"] is None:
                items[f["name"]] = ("fn", f["vis"])
        for c in m["consts"]:
            items[c["name"]] = ("const", c["vis"])
        expected = set()
        for feat in NAMEABLE:
            if feat not in cfg:
                continue
            nm = cfg[feat].get("name") or corpus.DEFAULT_NAMES[feat]
            want_vis = cfg[feat].get("vis")
            want_vis = enum_vis if want_vis in (None, True) else re.sub(r"\s+", " ", want_vis.replace("(", " ( ").replace(")", " )")).strip()
            expected.add(nm)
            if nm not in items:
                bad.append("%s: no item named %s" % (feat, nm))
                continue
            got_vis = items[nm][1]
            if re.sub(r"\s+", "", got_vis) != re.sub(r"\s+", "", want_vis):
                bad.append("%s: visibility %r, requested %r" % (nm, got_vis, want_vis))
        # everything else in the inherent impl is a helper: `__` name, inherited visibility
        for nm, (kind, vis) in items.items():
            if nm in expected:
                continue
            if not nm.startswith("__"):
                bad.append("unrequested item %s without the helper prefix" % nm)
            if vis != "":
                bad.append("helper %s is not private (vis %r)" % (nm, vis))
        # structs: requested name, requested visibility, private fields
        for st in m["structs"]:
            feat = "iter" if st["canon"] == "EIter" else "names"
            want = (cfg.get(feat, {}).get("struct_name") or cfg.get(feat, {}).get("struct") or (m["enum"]["ident"] + ("Iter" if feat == "iter" else "Names")))
            if st["name"] != want:
                bad.append("struct %s, expected %s" % (st["name"], want))
            fv = cfg.get(feat, {}).get("vis")
            want_vis = enum_vis if fv in (None, True) else fv
            if re.sub(r"\s+", "", st["vis"]) != re.sub(r"\s+", "", want_vis):
                bad.append("struct %s visibility %r, requested %r" % (st["name"], st["vis"], want_vis))
            for f in st["fields"]:
                if f["vis"] != "":
                    bad.append("field %s.%s is not private" % (st["name"], f["name"]))
        # nothing else in the module
        for it in m["mod_items"]:
            if it.startswith("enum ") or it.startswith("struct ") or it.startswith("impl ") or it.startswith("use enum_tools"):
                continue
            bad.append("unexpected item in the expansion: %s" % it)
        if m["inherent_impls"] != 1:
            bad.append("%d inherent impl blocks" % m["inherent_impls"])
        out.append({"id": "S/surface/%s" % s.mod, "ok": not bad, "detail": "; ".join(bad[:6]), "sample": {"features": s.features[:4], "enum_vis": s.vis}})
    return out


# ---------------------------------------------------------------------------------------------
# C16: free-name closure + hostile contexts
# ---------------------------------------------------------------------------------------------
HOSTILE = """
    #[allow(non_camel_case_types, dead_code, non_snake_case, non_upper_case_globals)]
    mod hostile_defs {
        pub struct Option; pub struct Some; pub struct None; pub struct Result; pub struct Ok; pub struct Err;
        pub trait Iterator {} pub trait DoubleEndedIterator {} pub trait ExactSizeIterator {} pub trait FusedIterator {}
        pub trait From {} pub trait Into {} pub trait TryFrom {} pub trait FromStr {} pub trait Copy {} pub trait Clone {} pub trait Sized {}
        pub trait FnMut {} pub trait IntoIterator {} pub trait Debug {} pub trait Display {}
        pub struct Formatter; pub struct RangeInclusive; pub struct MaybeUninit; pub struct Map; pub struct Copied;
        pub fn transmute() {} pub fn unreachable_unchecked() {}
        pub mod core { pub mod mem {} pub mod option {} pub mod iter {} }
        pub mod std {}
    }
    #[allow(unused_imports)] use self::hostile_defs::*;
    #[allow(unused_macros)] macro_rules! Some { () => {} }
    #[allow(unused_macros)] macro_rules! unreachable { (hostile) => {} }
    #[allow(unused_macros)] macro_rules! matches { (hostile) => {} }
    #[allow(unused_macros)] macro_rules! assert { (hostile) => {} }
    #[allow(unused_macros)] macro_rules! debug_assert { (hostile) => {} }
    #[allow(unused_macros)] macro_rules! assert_eq { (hostile) => {} }
    #[allow(unused_macros)] macro_rules! panic { (hostile) => {} }
    #[allow(unused_macros)] macro_rules! todo { (hostile) => {} }
    #[allow(unused_macros)] macro_rules! unimplemented { (hostile) => {} }
    #[allow(unused_macros)] macro_rules! write { (hostile) => {} }
    #[allow(unused_macros)] macro_rules! format_args { (hostile) => {} }
    #[allow(unused_macros)] macro_rules! concat { (hostile) => {} }
    #[allow(unused_macros)] macro_rules! stringify { (hostile) => {} }
"""


class HostileSpec(EnumSpec):
    no_private = True
    """the enum lives in `mod NAME { #[no_implicit_prelude] pub mod inner { hostile names; enum } }`;
    the oracle driver sits in the outer module, where the prelude is intact"""

    def render(self):
        lines = ["pub mod %s {" % self.mod, "  #[allow(unused_imports)] pub use self::inner::*;", "  #[no_implicit_prelude]", "  pub mod inner {", HOSTILE]
        lines.append("    #[derive(::core::clone::Clone, ::core::marker::Copy, ::enum_tools::EnumTools)]")
        lines.append("    #[enum_tools(%s)]" % ", ".join(self.features))
        lines.append("    #[repr(%s)]" % self.repr)
        lines.append("    pub enum %s {" % self.ident)
        for v in self.variants:
            if v.rename is not None:
                lines.append("        #[enum_tools(rename = %s)]" % corpus.rust_str(v.rename))
            lines.append("        %s = %s," % (v.ident, v.spelling if v.spelling is not None else str(v.disc)))
        lines.append("    }")
        lines.append("  }")
        lines.append("}")
        return "\n".join(lines)


def c16_specs():
    out = []
    for r, ds in (("i8", [-3, -2, -1, 0]), ("i8", [-100, -5, -4, 7]), ("u64", [0, 1, 2]), ("u16", [1, 5, 6, 900]), ("isize", [-1, 0, 1]), ("i128", [-7, 3, 4])):
        for cname in ("ALL_TABLE", "ALL_MATCH", "ALL_AUTO", "INLINE", "AUTO_NORANGE"):
            gap = all(b - a == 1 for a, b in zip(ds, ds[1:]))
            vs = mk_variants(ds, implicit_ok=False, renames={1: "re named"})
            tag = "g" if gap else "h"
            out.append(HostileSpec("h_%s_%s_%s" % (r, tag, cname.lower()), r, vs, list(CFG[cname]), ident="En", tags={"C16", "hostile", cname}))
        if all(b - a == 1 for a, b in zip(ds, ds[1:])):
            vs = mk_variants(ds, implicit_ok=False)
            out.append(HostileSpec("h_%s_g_range" % r, r, vs, list(CFG["RANGE"]), ident="En", tags={"C16", "hostile", "RANGE"}))
    return out


def c16_closure(mods):
    """every path in every generated function is absolute ::core, or rooted in Self / the enum /
    a generated struct / a local binding / a generic / a primitive / a name imported by an absolute use"""
    out = []
    for modname, m in sorted(mods.items()):
        own = {m["enum"]["ident"], "Self", "self", "crate", "super"} | {s["name"] for s in m["structs"]}
        bad = []
        for f in m["fns"]:
            imported = set()
            for u in f["uses"]:
                if not u.replace(" ", "").startswith("::core::"):
                    bad.append("%s: non-absolute use %s" % (f["key"], u))
                for nm in re.findall(r"(\w+)\s*(?:,|\}|$)", u):
                    imported.add(nm)
                imported.add(u.split("::")[-1].strip())
            ok_first = own | set(f["bindings"]) | imported | PRIMS
            for p in f["paths"]:
                if p.startswith("::"):
                    if not p.startswith("::core::"):
                        bad.append("%s: absolute path outside core: %s" % (f["key"], p))
                    continue
                first = p.split("::")[0]
                if first not in ok_first:
                    bad.append("%s: free name %s" % (f["key"], p))
            for mac in f["macros"]:
                bad.append("%s: macro invocation %s! in generated code" % (f["key"], mac))
        for i in m["impls"]:
            if i["trait"] and not i["trait"].startswith(":: core ::"):
                bad.append("impl of non-absolute trait path %s" % i["trait"])
        for s in m["structs"]:
            for fld in s["fields"]:
                for p in re.findall(r"(?<![\w:] )\b([A-Za-z_]\w*)\b(?= ::| <)", fld["ty"]):
                    pass
                if re.search(r"(?<!:: )\b(core|std|alloc) ::", fld["ty"]):
                    bad.append("struct %s field %s: relative path in type %s" % (s["name"], fld["name"], fld["ty"]))
        out.append({"id": "S/closure/%s" % modname, "ok": not bad, "detail": "; ".join(sorted(set(bad))[:6])})
    return out


# ---------------------------------------------------------------------------------------------
# C17: audit of hash-map iteration sites in the generator
# ---------------------------------------------------------------------------------------------
KNOWN_HASH_SITES = {
    ("parser/values.rs", "values"): "discharged by the canonical-order lemma (layer G): collected then sorted by the pairwise distinct key",
    ("parser/feature.rs", "self.0"): "finish(): loop body only reports an error (no output on a successful expansion)",
    ("parser/params.rs", "self.params"): "finish(): loop body only reports an error (no output on a successful expansion)",
}


def c17_specs():
    """declarations that exercise every place where hash-map order could leak: sorted(..) features,
    duplicate names in each string mode, many variants"""
    out = []
    k = 0
    for sorted_feat in ("sorted(value)", "sorted(name)", "sorted(name, value)", None):
        for ds in ([1, 2, 3, 7, 9, 10, 11, 12], list(range(40)), [-9, -8, -7, 0, 1, 50, 51, 52, 53, 90]):
            for cname in ("ALL_MATCH", "ALL_TABLE"):
                ren = {1: "dup", 3: "dup", 5: "dup", 6: "dup2", 7: "dup2"} if sorted_feat is None else None
                vs = mk_variants(ds, implicit_ok=False, renames=ren)
                if sorted_feat and "name" in sorted_feat:
                    # identifiers ascending with the values: A < B < … < Z < a…; keep it name-sorted
                    for i, v in enumerate(vs):
                        v.ident = "N%03d" % i
                feats = list(CFG[cname]) + ([sorted_feat] if sorted_feat else [])
                out.append(EnumSpec("w_%d" % k, "i16", vs, feats, tags={"C17"}))
                k += 1
    return out


def c17_audit():
    out = []
    src_root = os.path.join(REPO, "src")
    sites = []
    for root, dirs, files in os.walk(src_root):
        for fn in sorted(files):
            if not fn.endswith(".rs"):
                continue
            p = os.path.join(root, fn)
            rel = os.path.relpath(p, src_root)
            txt = open(p).read()
            names = set()
            for m in re.finditer(r"let\s+(?:mut\s+)?(\w+)(?:\s*:\s*HashMap[^=]*)?\s*=\s*HashMap\s*::", txt):
                names.add(m.group(1))
            for m in re.finditer(r"(\w+)\s*:\s*HashMap\s*<", txt):
                names.add("self." + m.group(1))
                names.add(m.group(1))
            if re.search(r"struct\s+\w+\s*\(\s*HashMap\s*<", txt):
                names.add("self.0")
            for other in ("HashSet", "BTreeMap"):
                pass
            for nm in names:
                for m in re.finditer(r"(?<![\w.])" + re.escape(nm) + r"\s*\.\s*(iter|into_iter|iter_mut|keys|values|values_mut|drain|into_keys|into_values|retain)\s*\(", txt):
                    sites.append((rel, nm, m.group(1), txt[m.start():m.start() + 160]))
                for m in re.finditer(r"for\s+[^{;]*?\s+in\s+&?(?:mut\s+)?" + re.escape(nm) + r"\s*\{", txt):
                    sites.append((rel, nm, "for", txt[m.start():m.start() + 160]))
            if "RandomState" in txt or "DefaultHasher" in txt or "SystemTime" in txt or "std::env" in txt or "thread_rng" in txt or "Instant::" in txt:
                sites.append((rel, "<per-process state>", "ambient", "uses RandomState/DefaultHasher/SystemTime/env/Instant"))
    seen = set()
    for rel, nm, kind, ctx in sites:
        key = (rel, nm)
        if key in seen:
            continue
        seen.add(key)
        why = KNOWN_HASH_SITES.get(key)
        ok = why is not None
        detail = why or "new iteration over a hash map (%s.%s) — not covered by the canonical-order argument: %s" % (nm, kind, ctx.replace("\n", " ")[:120])
        if ok and rel != "parser/values.rs":
            # the loop body must consist of emit_error! only
            txt = open(os.path.join(src_root, rel)).read()
            m = re.search(r"fn finish\b[^{]*\{(.*?)\n    \}", txt, re.S)
            body = m.group(1) if m else ""
            inner = ""
            fi = body.find("for ")
            if fi >= 0:
                bi = body.find("{", fi)
                depth, j = 0, bi
                while j < len(body):
                    if body[j] == "{":
                        depth += 1
                    elif body[j] == "}":
                        depth -= 1
                        if depth == 0:
                            break
                    j += 1
                inner = body[bi + 1:j].strip()
            if not re.fullmatch(r"emit_error!\s*\((?:[^()]|\([^()]*\))*\)\s*;?", inner):
                ok = False
                detail = "finish() loop over the hash map does more than emit_error!: %s" % inner[:120]
        out.append({"id": "S/hash-site/%s/%s" % (rel, nm), "ok": ok, "undecided_if_bad": True, "detail": "" if ok else detail, "sample": {"site": "%s: %s" % (rel, nm), "why_harmless": why}})
    for key in KNOWN_HASH_SITES:
        if key not in seen:
            out.append({"id": "S/hash-site/%s/%s" % key, "ok": False, "undecided_if_bad": True, "detail": "known site no longer found (audit pattern lost)"})
    return out


# ---------------------------------------------------------------------------------------------
# C18: permutation and repr independence
# ---------------------------------------------------------------------------------------------
def c18_specs(seed, tier):
    rng = random.Random(seed + 18)
    out = []
    sets = [("g", [-2, -1, 0, 1, 2]), ("h", [-7, -6, 0, 3, 4, 9]), ("one", [5]), ("hh", [1, 3, 5, 7, 9, 11, 13])]
    for tag, ds in sets:
        for cname in ("ALL_TABLE", "ALL_MATCH", "ALL_AUTO"):
            ren = {0: "zero", len(ds) - 1: "la st"}
            for order in ("sorted", "reversed", "shuffled", "shuffled2"):
                r_ = random.Random(7 if order == "shuffled" else 8)
                vs = mk_variants(ds, order="shuffled" if order.startswith("shuffled") else order, renames=ren, rng=r_, implicit_ok=False)
                out.append(EnumSpec("p_%s_%s_%s" % (tag, cname.lower(), order), "i16", vs, list(CFG[cname]), tags={"C18", "perm"}))
    # permutation of blocks (explicit start + implicit successors): the discriminant-to-name map is kept
    blocks = [[("A", "0"), ("B", None)], [("C", "5"), ("D", None), ("E", None)], [("F", "-3"), ("G", None)], [("H", "20")]]
    for oi, order in enumerate(([0, 1, 2, 3], [1, 0, 3, 2], [3, 2, 1, 0], [2, 3, 0, 1])):
        for cname in ("ALL_TABLE", "ALL_MATCH"):
            vs = []
            for bi in order:
                prev = None
                for ident, sp in blocks[bi]:
                    d = int(sp) if sp is not None else prev + 1
                    vs.append(Variant(ident, d, sp))
                    prev = d
            out.append(EnumSpec("p_blk_%s_o%d" % (cname.lower(), oi), "i16", vs, list(CFG[cname]), tags={"C18", "perm"}))
    # repr independence: the same (non-negative) discriminants under every repr that can hold them
    for tag, ds in (("g", [3, 4, 5, 6]), ("h", [0, 1, 5, 100, 101, 127])):
        for cname in ("ALL_TABLE", "ALL_AUTO"):
            for r in REPRS:
                if r in ("usize", "isize"):
                    continue   # `usize` also occurs as the index type; pointer-sized reprs are covered by layer T
                vs = mk_variants(ds, implicit_ok=False)
                out.append(EnumSpec("q_%s_%s_%s" % (tag, cname.lower(), r), r, vs, list(CFG[cname]), tags={"C18", "repr"}))
    for tag, ds in (("gn", [-3, -2, -1, 0]), ("hn", [-100, -99, -5, 3, 100])):
        for r in ("i8", "i16", "i32", "i64", "i128"):
            vs = mk_variants(ds, implicit_ok=False)
            out.append(EnumSpec("q_%s_all_table_%s" % (tag, r), r, vs, list(CFG["ALL_TABLE"]), tags={"C18", "repr"}))
    return out


def repr_neutral(m):
    """expansion fingerprint with the repr and its unsigned companion renamed"""
    r = m["enum"]["repr"]
    u = REPRS[r][2]
    def ren(t):
        t = re.sub(r"\b(\d+)%s\b" % r, r"\1@R", t)
        t = re.sub(r"\b%s\b" % r, "@R", t)
        if u != r:
            t = re.sub(r"\b%s\b" % u, "@R", t)
        return t
    fns = {f["key"].replace("[R]", "[R]"): ren(norm_body(f["canon"]) + "|" + f["sig"]) for f in m["fns"]}
    consts = {c["name"]: ren(c["ty"] + " = " + c["init"]) for c in m["consts"]}
    structs = {s["name"]: ren(" ".join(f["name"] + ":" + f["ty"] for f in s["fields"])) for s in m["structs"]}
    return fns, consts, structs


# ---------------------------------------------------------------------------------------------
# C19: documented signatures
# ---------------------------------------------------------------------------------------------
def c19_headers(mods, doc):
    """the header of every generated item against the signature line of the rustdoc"""
    out = []
    for modname, m in sorted(mods.items()):
        en = m["enum"]["ident"]
        r = m["enum"]["repr"]
        structs = {s["canon"]: s["name"] for s in m["structs"]}
        bad = []
        seen = 0
        for f in m["fns"]:
            if f["owner_canon"] != "E" or f["trait"] is not None:
                continue
            base = f["name"].lstrip("_")
            d = doc.get(base)
            if not d or not d.get("sig"):
                continue
            seen += 1
            sig = d["sig"]
            want_const = " const fn " in sig
            want = re.sub(r"\{\.\.\}|\{ \.\. \}", "", sig).replace("$vis ", "").replace("const ", "").strip()
            want = want.replace("$repr", r).replace("SelfIter", structs.get("EIter", en + "Iter")).replace("SelfNames", structs.get("ENames", en + "Names"))
            got = re.sub(r":: core :: option :: ", "", f["sig"]).replace(" ", "")
            got = got.replace("constfn", "fn")
            want_n = want.replace(" ", "").replace("fn" + base, "fn" + f["name"])
            # `Option<Self>` may be spelled with the enum's name
            if got.replace(en, "Self") != want_n.replace(en, "Self"):
                bad.append("%s: signature `%s`, documented `%s`" % (f["name"], f["sig"], sig))
            if f["const"] != want_const:
                bad.append("%s: const=%s, documented const=%s" % (f["name"], f["const"], want_const))
        for c in m["consts"]:
            base = c["name"].lstrip("_")
            if base in ("MIN", "MAX"):
                seen += 1
                if c["ty"] not in (en, "Self"):
                    bad.append("const %s has type %s" % (c["name"], c["ty"]))
        out.append({"id": "S/headers/%s" % modname, "ok": not bad, "detail": "; ".join(bad[:5]), "n": seen})
    return out


# ---------------------------------------------------------------------------------------------
# orchestration
# ---------------------------------------------------------------------------------------------
def all_extra_specs(seed, tier):
    doc = parse_rustdoc()
    return (c09_specs(seed, tier) + c10_catalogue_specs(doc) + c10_split_specs() + c15_specs() + c16_specs() + c18_specs(seed, tier))


def run_layer_s(scratch, tier, seed):
    target = os.path.join(scratch, "target")
    res = {"checks": {}, "instances": None, "doc": None, "base_rejected": None, "determinism": None}
    doc = parse_rustdoc()
    res["doc"] = {k: {"modes": v["modes"], "params": v["params"], "sig": v["sig"]} for k, v in doc.items()}
    s09, sdoc, ssplit, s15, s16, s18 = (c09_specs(seed, tier), c10_catalogue_specs(doc), c10_split_specs(), c15_specs(), c16_specs(), c18_specs(seed, tier))
    specs = s09 + sdoc + ssplit + s15 + s16 + s18
    # 1. behaviour + compile (rejected modules isolated) on the whole catalogue
    inst = layer_i.run_instances(scratch, specs, seed, tier, target=target, name="cat")
    mods = inst.pop("mods_info", None)
    res["instances"] = inst
    res["instances"]["specs"] = {s.mod: s.describe() for s in specs}
    res["instances"]["decls"] = {s.mod: s.render() for s in specs}
    if inst.get("build_error") and mods is None:
        return res
    if mods is None:
        mods, _ = mods_of(scratch, specs, "cat_x2", target)
    ck = res["checks"]
    # C09
    ck["C09"] = c09_spec_identity() + c09_auto_bodies(mods, s09)
    # C10: split attributes == single attribute
    c10 = []
    for s in ssplit:
        if s.split:
            one = s.mod.replace("_split", "_one")
            d = token_identity(mods, s.mod, one)
            c10.append({"id": "S/split/%s" % s.mod, "ok": not d, "detail": "" if not d else "differs from the single-attribute expansion in: %s" % ", ".join(d[:6])})
    # C10: documented catalogue compiles (rejections are reported as failures; known findings are matched by the driver)
    for s in sdoc:
        why = inst["rejected"].get(s.mod)
        c10.append({"id": "S/doc/%s" % s.mod, "ok": why is None, "detail": "" if why is None else "documented configuration %s is rejected: %s" % (s.features, why[:400]),
                    "sample": {"features": s.features, "shape": s.shape()}})
    ck["C10"] = c10
    # C15
    ck["C15"] = c15_check(mods, s15)
    for s in s15:
        if s.mod in inst["rejected"]:
            ck["C15"].append({"id": "S/surface-compiles/%s" % s.mod, "ok": False, "detail": "renamed configuration does not compile: " + inst["rejected"][s.mod][:400]})
    # C16: closure over every expansion of the catalogue, hostile contexts compile
    ck["C16"] = c16_closure(mods)
    for s in s16:
        why = inst["rejected"].get(s.mod)
        ck["C16"].append({"id": "S/hostile/%s" % s.mod, "ok": why is None,
                          "detail": "" if why is None else "does not compile under no_implicit_prelude + shadowed prelude names: " + why[:500],
                          "sample": {"context": "#[no_implicit_prelude] + user items named Option/Some/None/Result/Ok/Err/Iterator/From/TryFrom/FromStr/Copy/core/std/…", "features": s.features[:3]}})
    # C17
    ck["C17"] = c17_audit()
    # C18
    c18 = []
    groups = {}
    for s in s18:
        if "perm" in s.tags:
            groups.setdefault(s.mod.rsplit("_", 1)[0], []).append(s)
    for g, ss in sorted(groups.items()):
        base = ss[0]
        for o in ss[1:]:
            d = token_identity(mods, base.mod, o.mod)
            c18.append({"id": "S/perm/%s" % o.mod, "ok": not d, "detail": "" if not d else "expansion differs from the sorted declaration in: %s" % ", ".join(d[:6]),
                        "sample": {"declared": [v.ident for v in o.variants], "against": [v.ident for v in base.variants]}})
    rg = {}
    for s in s18:
        if "repr" in s.tags:
            rg.setdefault(s.mod.rsplit("_", 1)[0], []).append(s)
    for g, ss in sorted(rg.items()):
        if ss[0].mod not in mods:
            continue
        base = repr_neutral(mods[ss[0].mod])
        for o in ss[1:]:
            if o.mod not in mods:
                c18.append({"id": "S/repr/%s" % o.mod, "ok": False, "detail": "rejected by the macro or rustc while the same declaration with repr %s is accepted" % ss[0].repr,
                            "sample": {"repr": o.repr, "against": ss[0].repr}})
                continue
            fp = repr_neutral(mods[o.mod])
            diffs = [k for i in range(3) for k in set(base[i]) | set(fp[i]) if base[i].get(k) != fp[i].get(k)]
            c18.append({"id": "S/repr/%s" % o.mod, "ok": not diffs, "detail": "" if not diffs else "after renaming the repr the expansion differs from %s in: %s" % (ss[0].repr, ", ".join(sorted(diffs)[:6])),
                        "sample": {"repr": o.repr, "against": ss[0].repr}})
    ck["C18"] = c18
    # C19
    ck["C19"] = c19_headers(mods, doc)
    # 2. C10 base cases: every single-feature cell x 12 reprs type-checks (Copy is the only bound)
    base_specs = c10_base_specs()
    rej, err = layer_i.compile_only(scratch, base_specs, name="base", target=target)
    res["base_rejected"] = {"rejected": rej, "error": err, "n": len(base_specs)}
    # 3. C17 bounded witness: expand the same crate in fresh processes (fresh hash seeds)
    n = 4 if tier == "quick" else 10
    texts = []
    sub = (s09 + s18)[: 40 if tier == "quick" else 400] + c17_specs()
    for i in range(n):
        path, dt = expand.expand(scratch, sub, name="det_x", target=target)
        texts.append(open(path).read())
    res["determinism"] = {"runs": n, "modules": len(sub), "identical": all(t == texts[0] for t in texts)}
    return res
