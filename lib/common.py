"""Shared helpers: repr table, scratch directories, command running, repo tree hash, cache."""
import hashlib
import json
import os
import shutil
import subprocess
import sys
import tempfile
import time

VERIF = os.path.dirname(os.path.dirname(os.path.abspath(__file__)))
REPO = os.environ.get("VERIF_REPO", "/repo")
VX = os.path.join(VERIF, "vx", "target", "release", "vx")
CACHE = os.path.join(VERIF, ".cache")

# repr -> (bits, signed, unsigned companion the generator is expected to choose)
REPRS = {
    "u8": (8, False, "u8"), "i8": (8, True, "u8"),
    "u16": (16, False, "u16"), "i16": (16, True, "u16"),
    "u32": (32, False, "u32"), "i32": (32, True, "u32"),
    "u64": (64, False, "u64"), "i64": (64, True, "u64"),
    "u128": (128, False, "u128"), "i128": (128, True, "u128"),
    "usize": (64, False, "usize"), "isize": (64, True, "usize"),
}
I64_MIN, I64_MAX = -(1 << 63), (1 << 63) - 1


def rmin(r):
    bits, signed, _ = REPRS[r]
    return -(1 << (bits - 1)) if signed else 0


def rmax(r):
    bits, signed, _ = REPRS[r]
    return (1 << (bits - 1)) - 1 if signed else (1 << bits) - 1


def dom_min(r):
    """smallest discriminant of repr r inside the documented domain (i64 range)"""
    return max(rmin(r), I64_MIN)


def dom_max(r):
    return min(rmax(r), I64_MAX)


def wrap(r, x):
    bits, signed, _ = REPRS[r]
    m = x % (1 << bits)
    if signed and m > rmax(r):
        m -= 1 << bits
    return m


class Undecided(Exception):
    """the machinery could not decide (lost anchor, tool failure, unsupported construct)."""


def log(*a):
    print(*a, file=sys.stderr, flush=True)


def run(cmd, cwd=None, env=None, timeout=3600, input=None):
    e = dict(os.environ)
    e.update({"CARGO_NET_OFFLINE": "true"})
    if env:
        e.update(env)
    t0 = time.time()
    try:
        p = subprocess.run(cmd, cwd=cwd, env=e, stdout=subprocess.PIPE, stderr=subprocess.PIPE,
                           timeout=timeout, input=input, text=True, errors="replace")
        return p.returncode, p.stdout, p.stderr, time.time() - t0
    except subprocess.TimeoutExpired as ex:
        out = ex.stdout.decode(errors="replace") if isinstance(ex.stdout, bytes) else (ex.stdout or "")
        err = ex.stderr.decode(errors="replace") if isinstance(ex.stderr, bytes) else (ex.stderr or "")
        return 124, out, err + "\nTIMEOUT", time.time() - t0


class Scratch:
    """temporary directory outside /repo and /verif, removed on exit"""

    def __init__(self, prefix="vf-"):
        base = os.environ.get("VERIF_SCRATCH_BASE", tempfile.gettempdir())
        self.path = tempfile.mkdtemp(prefix=prefix, dir=base)

    def __enter__(self):
        return self.path

    def __exit__(self, *a):
        if os.environ.get("VERIF_KEEP_SCRATCH"):
            log("keeping scratch", self.path)
        else:
            shutil.rmtree(self.path, ignore_errors=True)


def repo_files():
    out = []
    for root, dirs, files in os.walk(REPO):
        dirs[:] = sorted(d for d in dirs if d not in (".git", "target"))
        for f in sorted(files):
            out.append(os.path.join(root, f))
    return out


def tree_hash(extra=()):
    """content hash of /repo's working tree (sources only) + the verification machinery"""
    h = hashlib.sha256()
    for p in repo_files():
        rel = os.path.relpath(p, REPO)
        if not (rel.startswith("src") or rel in ("Cargo.toml", "Cargo.lock") or rel.startswith(".cargo")):
            continue
        h.update(rel.encode())
        h.update(b"\0")
        with open(p, "rb") as f:
            h.update(f.read())
        h.update(b"\0")
    for d in ("lib", "contracts", "harness", os.path.join("vx", "src")):
        dp = os.path.join(VERIF, d)
        for root, dirs, files in os.walk(dp):
            dirs[:] = sorted(x for x in dirs if x != "__pycache__")
            for f in sorted(files):
                if f.endswith(".pyc") or f in ("baseline_obligations.json", "baseline_bodies.json"):
                    continue
                p = os.path.join(root, f)
                h.update(os.path.relpath(p, VERIF).encode())
                with open(p, "rb") as fh:
                    h.update(fh.read())
    for e in extra:
        h.update(str(e).encode())
    return h.hexdigest()[:24]


def cache_get(kind, key):
    if os.environ.get("VERIF_NO_CACHE"):
        return None
    p = os.path.join(CACHE, kind, key + ".json")
    if os.path.exists(p):
        try:
            with open(p) as f:
                return json.load(f)
        except Exception:
            return None
    return None


def cache_put(kind, key, val, keep=4):
    if os.environ.get("VERIF_NO_CACHE"):
        return
    d = os.path.join(CACHE, kind)
    os.makedirs(d, exist_ok=True)
    tmp = os.path.join(d, key + ".json.tmp%d" % os.getpid())
    with open(tmp, "w") as f:
        json.dump(val, f)
    os.replace(tmp, os.path.join(d, key + ".json"))
    ents = sorted((os.path.getmtime(os.path.join(d, x)), x) for x in os.listdir(d) if x.endswith(".json"))
    for _, x in ents[:-keep]:
        try:
            os.remove(os.path.join(d, x))
        except OSError:
            pass
