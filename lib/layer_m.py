"""Layer M — the native oracle driver of layer I executed under Miri for a handful of small enums.

Purpose: undefined behaviour that has no behavioural symptom in a native run (reads of uninitialised
memory through `MaybeUninit::assume_init`, invalid enum values that happen to print fine in release
builds, out-of-bounds pointer arithmetic) gets a CONCRETE failing input.  Kani's uninit instrumentation
does not work on this code (ICE), so this is the only layer that can witness an uninitialised read on the
real expansion.  Bounded: small corpus, short histories.
"""
import os
import re
import concurrent.futures as cf
from . import layer_i, layer_k, expand
from .common import run, Undecided


def m_specs(tier="quick"):
    ks = layer_k.k_specs("quick")
    keep = ("k_i8_h_all_table", "k_i8_h_all_match", "k_u8_h_all_table", "k_i64_h_all_table", "k_isize_g_all_table", "k_u16_g_range", "k_i8_g_all_table", "k_u64_one_all_table")
    out = [s for s in ks if s.mod in keep]
    if tier != "quick":
        out = ks
    for s in out:
        s.mod = "m" + s.mod[1:]
    return out


def run_layer_m(scratch, tier="quick", seed=1, jobs=8, only=None):
    specs = [s for s in m_specs(tier) if only is None or s.mod in only]
    target = os.path.join(scratch, "target")
    path, live, rejected = expand.expand_isolating(scratch, specs, name="m_x", target=target)
    ext = expand.vx_extract(path)
    mods = {m["mod"]: m for m in ext["mods"]}
    d = os.path.join(scratch, "minst")
    layer_i.render_instance_crate(d, live, mods, seed, "miri", name="minst")
    env = {"CARGO_TARGET_DIR": os.path.join(scratch, "miri-target"), "MIRIFLAGS": "-Zmiri-disable-isolation", "VERIF_SEED": str(seed)}
    res = {"modules": {}, "rejected": rejected, "error": None, "specs": {s.mod: s.describe() for s in specs}, "decls": {s.mod: s.render() for s in specs}}
    # build once
    rc, out, err, dt = run(["cargo", "+nightly", "miri", "run", "--offline", "--quiet", "--", "__none__"], cwd=d, env=env, timeout=3000)
    res["build_s"] = dt
    if rc != 0 and "Undefined Behavior" not in err:
        blocks = [b for b in re.split(r"\n(?=error)", err) if b.startswith("error")]
        res["error"] = "miri build/run failed: " + ("\n".join(blocks[:2]) or err[-1500:])[:2500]
        return res

    def one(s):
        rc1, out1, err1, dt1 = run(["cargo", "+nightly", "miri", "run", "--offline", "--quiet", "--", s.mod], cwd=d, env=env, timeout=3000)
        return s.mod, rc1, out1, err1, dt1

    with cf.ThreadPoolExecutor(max_workers=jobs) as ex:
        for modname, rc1, out1, err1, dt1 in ex.map(one, live):
            m = {"fails": [], "evals": 0, "done": False, "wall_s": dt1}
            for line in out1.split("\n"):
                p = line.split("\t")
                if p[0] == "FAIL" and len(p) >= 5:
                    m["fails"].append({"prop": p[2], "check": p[3], "detail": p[4]})
                elif p[0] == "DONE" and len(p) >= 3:
                    m["evals"] = int(p[2])
                    m["done"] = True
            ub = re.search(r"error: Undefined Behavior: ([^\n]*)", err1)
            if ub:
                at = [l.split("\t") for l in err1.split("\n") if l.startswith("AT\t")]
                where = at[-1] if at else ["AT", modname, "C02", "?"]
                msg = "Miri: Undefined Behavior during the %s check: %s" % (where[3], ub.group(1)[:300])
                m["fails"].append({"prop": "C02", "check": "UB in " + where[3], "detail": msg})
                if where[2] != "C02":
                    m["fails"].append({"prop": where[2], "check": "UB in " + where[3], "detail": msg})
                m["done"] = True
            elif rc1 != 0 and not m["done"]:
                m["error"] = err1[-800:]
            res["modules"][modname] = m
    return res
