// Support code for layer I (instances): generic, oracle-driven checkers executed natively on the
// real, unmodified expansion.  Everything here compares observable behaviour with an oracle that
// was computed from the declaration by the language rule, never from the macro's output.
#![allow(dead_code)]
use std::collections::VecDeque;
use std::fmt::Debug;
use std::iter::FusedIterator;
use std::panic::{catch_unwind, AssertUnwindSafe};

pub struct Out {
    pub module: &'static str,
    pub lines: Vec<String>,
    pub evals: u64,
}

impl Out {
    pub fn new(module: &'static str) -> Self {
        Out { module, lines: Vec::new(), evals: 0 }
    }
    pub fn fail(&mut self, prop: &str, check: &str, detail: String) {
        if self.lines.len() < 40 {
            self.lines.push(format!("FAIL\t{}\t{}\t{}\t{}", self.module, prop, check, detail.replace('\n', " ").replace('\t', " ")));
        }
    }
    pub fn eq<T: PartialEq + Debug>(&mut self, prop: &str, check: &str, input: &dyn Debug, got: T, want: T) {
        self.evals += 1;
        if got != want {
            self.fail(prop, check, format!("input={:?} got={:?} want={:?}", input, got, want));
        }
    }
    /// run `f`, reporting a panic as a failure of `prop`
    pub fn guard<F: FnOnce(&mut Out)>(&mut self, prop: &str, check: &str, f: F) {
        // progress marker: if the process dies inside this check (non-unwinding panic, signal), the
        // last marker on stderr names the property and the check that was running
        // checks that killed the process in an earlier run of this module are skipped (VERIF_SKIP = "prop/check;prop/check"),
        // so that the remaining checks of the module still run
        if let Ok(skip) = std::env::var("VERIF_SKIP") {
            let me = format!("{}/{}", prop, check);
            if skip.split(';').any(|x| x == me) {
                return;
            }
        }
        eprintln!("AT\t{}\t{}\t{}", self.module, prop, check);
        let r = catch_unwind(AssertUnwindSafe(|| {
            let mut inner = Out::new(self.module);
            f(&mut inner);
            inner
        }));
        match r {
            Ok(inner) => {
                self.evals += inner.evals;
                for l in inner.lines {
                    if self.lines.len() < 40 {
                        self.lines.push(l);
                    }
                }
            }
            Err(e) => {
                let msg = if let Some(s) = e.downcast_ref::<String>() {
                    s.clone()
                } else if let Some(s) = e.downcast_ref::<&str>() {
                    s.to_string()
                } else {
                    "panic".to_string()
                };
                self.fail(prop, check, format!("PANIC: {}", msg));
            }
        }
    }
}

/// tiny deterministic generator (xorshift*), seeded from VERIF_SEED
pub struct Rng(pub u64);
impl Rng {
    pub fn next(&mut self) -> u64 {
        let mut x = self.0;
        x ^= x >> 12;
        x ^= x << 25;
        x ^= x >> 27;
        self.0 = x;
        x.wrapping_mul(0x2545F4914F6CDD1D)
    }
    pub fn below(&mut self, n: u64) -> u64 {
        if n == 0 { 0 } else { self.next() % n }
    }
}

#[derive(Clone, Copy, Debug)]
pub enum Op {
    Next,
    NextBack,
    Nth(usize),
    NthBack(usize),
    Len,
    SizeHint,
}

/// Compare an iterator with the model (a VecDeque over the oracle list) under one op sequence,
/// then finish with each consuming operation.
pub fn run_history<T0, T, I>(prop: &str, what: &str, mk: &dyn Fn() -> I, proj: &dyn Fn(T0) -> T, oracle: &[T], ops: &[Op], out: &mut Out)
where
    T: Copy + PartialEq + Debug,
    I: Iterator<Item = T0> + DoubleEndedIterator + ExactSizeIterator + FusedIterator,
{
    // NOTE: the iterator under test is used directly (no adapter in between), so that the struct's own
    // nth / nth_back / last / count / fold / rfold implementations are the ones exercised
    for fin in 0..7u8 {
        let mut it = mk();
        let mut model: VecDeque<T> = oracle.iter().copied().collect();
        for (step, op) in ops.iter().enumerate() {
            out.evals += 1;
            let ctx = |s: &str| format!("{} ops={:?} step={} {}", what, ops, step, s);
            match *op {
                Op::Next => {
                    let (g, w) = (it.next().map(proj), model.pop_front());
                    if g != w { out.fail(prop, "history", ctx(&format!("next got={:?} want={:?}", g, w))); return; }
                }
                Op::NextBack => {
                    let (g, w) = (it.next_back().map(proj), model.pop_back());
                    if g != w { out.fail(prop, "history", ctx(&format!("next_back got={:?} want={:?}", g, w))); return; }
                }
                Op::Nth(k) => {
                    let g = it.nth(k).map(proj);
                    let w = { for _ in 0..k.min(model.len()) { model.pop_front(); } model.pop_front() };
                    if g != w { out.fail(prop, "history", ctx(&format!("nth({}) got={:?} want={:?}", k, g, w))); return; }
                }
                Op::NthBack(k) => {
                    let g = it.nth_back(k).map(proj);
                    let w = { for _ in 0..k.min(model.len()) { model.pop_back(); } model.pop_back() };
                    if g != w { out.fail(prop, "history", ctx(&format!("nth_back({}) got={:?} want={:?}", k, g, w))); return; }
                }
                Op::Len => {
                    let (g, w) = (it.len(), model.len());
                    if g != w { out.fail(prop, "history", ctx(&format!("len got={:?} want={:?}", g, w))); return; }
                }
                Op::SizeHint => {
                    let (g, w) = (it.size_hint(), (model.len(), Some(model.len())));
                    if g != w { out.fail(prop, "history", ctx(&format!("size_hint got={:?} want={:?}", g, w))); return; }
                }
            }
        }
        let rest: Vec<T> = model.iter().copied().collect();
        let ctx = |s: &str| format!("{} after ops={:?} {}", what, ops, s);
        out.evals += 1;
        match fin {
            0 => { let g: Vec<T> = it.map(proj).collect(); if g != rest { out.fail(prop, "collect", ctx(&format!("got={:?} want={:?}", g, rest))); } }
            1 => { let g: Vec<T> = it.rev().map(proj).collect(); let mut w = rest.clone(); w.reverse(); if g != w { out.fail(prop, "rev", ctx(&format!("got={:?} want={:?}", g, w))); } }
            2 => { let g = it.count(); if g != rest.len() { out.fail(prop, "count", ctx(&format!("got={:?} want={:?}", g, rest.len()))); } }
            3 => { let g = it.last().map(proj); let w = rest.last().copied(); if g != w { out.fail(prop, "last", ctx(&format!("got={:?} want={:?}", g, w))); } }
            4 => { let g = it.fold(Vec::new(), |mut a, x| { a.push(proj(x)); a }); if g != rest { out.fail(prop, "fold", ctx(&format!("got={:?} want={:?}", g, rest))); } }
            5 => { let g = it.rfold(Vec::new(), |mut a, x| { a.push(proj(x)); a }); let mut w = rest.clone(); w.reverse(); if g != w { out.fail(prop, "rfold", ctx(&format!("got={:?} want={:?}", g, w))); } }
            _ => {
                // fused: drain, then None forever from both ends, len 0
                while it.next().is_some() {}
                for _ in 0..3 {
                    if it.next().is_some() || it.next_back().is_some() || it.len() != 0 || it.nth(0).is_some() || it.nth_back(5).is_some() {
                        out.fail(prop, "fused", ctx("yielded an item or non-zero len after None"));
                        break;
                    }
                }
            }
        }
    }
}

/// systematic + seeded random histories
pub fn check_iterator<T0, T, I>(prop: &str, what: &str, mk: &dyn Fn() -> I, proj: &dyn Fn(T0) -> T, oracle: &[T], seed: u64, depth: usize, randoms: usize, out: &mut Out)
where
    T: Copy + PartialEq + Debug,
    I: Iterator<Item = T0> + DoubleEndedIterator + ExactSizeIterator + FusedIterator,
{
    let n = oracle.len();
    // plain
    run_history(prop, what, mk, proj, oracle, &[], out);
    // all front/back interleavings up to `depth` (meeting in the middle when n is small)
    let d = depth.min(n + 2).min(10);
    for bits in 0..(1u32 << d) {
        let ops: Vec<Op> = (0..d).map(|i| if bits >> i & 1 == 0 { Op::Next } else { Op::NextBack }).collect();
        run_history(prop, what, mk, proj, oracle, &ops, out);
        if out.lines.len() >= 40 { return; }
    }
    // drain completely from each end, and alternately
    run_history(prop, what, mk, proj, oracle, &vec![Op::Next; n + 2], out);
    run_history(prop, what, mk, proj, oracle, &vec![Op::NextBack; n + 2], out);
    let alt: Vec<Op> = (0..n + 3).map(|i| if i % 2 == 0 { Op::Next } else { Op::NextBack }).collect();
    run_history(prop, what, mk, proj, oracle, &alt, out);
    // nth beyond the remaining length, nth at the boundary
    for k in [0usize, 1, n.saturating_sub(1), n, n + 1, usize::MAX] {
        run_history(prop, what, mk, proj, oracle, &[Op::Nth(k), Op::Len, Op::Next, Op::NextBack], out);
        run_history(prop, what, mk, proj, oracle, &[Op::NthBack(k), Op::SizeHint, Op::NextBack, Op::Next], out);
        run_history(prop, what, mk, proj, oracle, &[Op::Next, Op::NextBack, Op::Nth(k), Op::NthBack(k), Op::Len], out);
    }
    let mut rng = Rng(seed | 1);
    for _ in 0..randoms {
        let len = 1 + rng.below(depth as u64 + 4) as usize;
        let ops: Vec<Op> = (0..len)
            .map(|_| match rng.below(8) {
                0 | 1 => Op::Next,
                2 | 3 => Op::NextBack,
                4 => Op::Nth(rng.below(n as u64 + 2) as usize),
                5 => Op::NthBack(rng.below(n as u64 + 2) as usize),
                6 => Op::Len,
                _ => Op::SizeHint,
            })
            .collect();
        run_history(prop, what, mk, proj, oracle, &ops, out);
        if out.lines.len() >= 40 { return; }
    }
}

/// a cheap variant for enums whose traversal is quadratic (thousands of runs in next_and_back mode):
/// every operation is exercised once, the full content is compared forwards and backwards
pub fn check_iterator_light<T0, T, I>(prop: &str, what: &str, mk: &dyn Fn() -> I, proj: &dyn Fn(T0) -> T, oracle: &[T], out: &mut Out)
where
    T: Copy + PartialEq + Debug,
    I: Iterator<Item = T0> + DoubleEndedIterator + ExactSizeIterator + FusedIterator,
{
    out.evals += 3;
    let fwd: Vec<T> = mk().map(proj).collect();
    if fwd != oracle { out.fail(prop, "collect", format!("{} differs from the oracle (len {} vs {})", what, fwd.len(), oracle.len())); return; }
    let mut bwd: Vec<T> = mk().rev().map(proj).collect();
    bwd.reverse();
    if bwd != oracle { out.fail(prop, "rev", format!("{} reversed differs from the oracle", what)); return; }
    let n = oracle.len();
    let mut it = mk();
    let mut model: VecDeque<T> = oracle.iter().copied().collect();
    let steps: [Op; 8] = [Op::Len, Op::Next, Op::NextBack, Op::Nth(1), Op::NthBack(1), Op::SizeHint, Op::Nth(n), Op::Next];
    for (i, op) in steps.iter().enumerate() {
        let ok = match *op {
            Op::Next => it.next().map(proj) == model.pop_front(),
            Op::NextBack => it.next_back().map(proj) == model.pop_back(),
            Op::Nth(k) => { let g = it.nth(k).map(proj); for _ in 0..k.min(model.len()) { model.pop_front(); } g == model.pop_front() }
            Op::NthBack(k) => { let g = it.nth_back(k).map(proj); for _ in 0..k.min(model.len()) { model.pop_back(); } g == model.pop_back() }
            Op::Len => it.len() == model.len(),
            Op::SizeHint => it.size_hint() == (model.len(), Some(model.len())),
        };
        if !ok { out.fail(prop, "history", format!("{} step {} {:?} disagrees with the model", what, i, op)); return; }
    }
}

/// strings to probe from_str with: every name, the single-edit neighbours of every name, case
/// variants, surrounding whitespace, the empty string and the identifiers of renamed variants
pub fn probe_strings(names: &[&str], idents: &[&str], limit: usize) -> Vec<String> {
    let mut v: Vec<String> = Vec::new();
    v.push(String::new());
    for n in names.iter().chain(idents.iter()) {
        v.push(n.to_string());
    }
    let step = (names.len() / limit.max(1)).max(1);
    for n in names.iter().step_by(step) {
        let chars: Vec<char> = n.chars().collect();
        v.push(format!("{} ", n));
        v.push(format!(" {}", n));
        v.push(format!("{}x", n));
        v.push(format!("x{}", n));
        v.push(format!("{}\0", n));
        v.push(n.to_uppercase());
        v.push(n.to_lowercase());
        for i in 0..chars.len().min(8) {
            let mut c = chars.clone();
            c.remove(i);
            v.push(c.iter().collect());
            let mut c = chars.clone();
            c[i] = if c[i] == 'z' { 'y' } else { 'z' };
            v.push(c.iter().collect());
        }
    }
    v.sort();
    v.dedup();
    v
}
