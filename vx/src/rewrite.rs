//! Extraction of generated items from an expansion, and the rewrite rules R1–R8 of DESIGN §3.1.

use crate::pp;
use proc_macro2::{Span, TokenStream};
use quote::{quote, ToTokens};
use serde_json::{json, Map, Value};
use std::collections::{BTreeMap, BTreeSet};
use std::str::FromStr;
use syn::visit::Visit;
use syn::visit_mut::{self, VisitMut};
use syn::*;

const INT_TYPES: [&str; 12] = [
    "u8", "u16", "u32", "u64", "u128", "usize", "i8", "i16", "i32", "i64", "i128", "isize",
];

fn ts(s: &str) -> TokenStream {
    TokenStream::from_str(s).unwrap_or_else(|e| panic!("cannot tokenize overlay text {s:?}: {e}"))
}

fn flat<T: ToTokens>(t: &T) -> String {
    pp::flat(&t.to_token_stream())
}

fn path_str(p: &Path) -> String {
    let mut s = String::new();
    if p.leading_colon.is_some() {
        s.push_str("::");
    }
    for (i, seg) in p.segments.iter().enumerate() {
        if i > 0 {
            s.push_str("::");
        }
        s.push_str(&seg.ident.to_string());
    }
    s
}

/// Everything known about one corpus module.
struct ModCtx {
    enum_ident: String,
    repr: String,
    /// associated constants of the inherent impl: name -> (type string, is enum typed)
    consts: BTreeMap<String, (String, bool)>,
    /// generated structs: original ident -> canonical ident
    rename: BTreeMap<String, String>,
}

pub fn extract_file(file: &File, overlay: &Value) -> Value {
    let mut mods = Vec::new();
    for item in &file.items {
        if let Item::Mod(m) = item {
            if let Some((_, items)) = &m.content {
                // nested inline modules (hostile-context corpus entries) are flattened
                let mut flat_items: Vec<Item> = Vec::new();
                fn flatten(items: &[Item], out: &mut Vec<Item>) {
                    for i in items {
                        if let Item::Mod(n) = i {
                            if let Some((_, inner)) = &n.content {
                                if n.ident != "hostile_defs" {
                                    flatten(inner, out);
                                }
                                continue;
                            }
                        }
                        out.push(i.clone());
                    }
                }
                flatten(items, &mut flat_items);
                if let Some(v) = extract_mod(&m.ident.to_string(), &flat_items, overlay) {
                    mods.push(v);
                }
            }
        }
    }
    json!({ "mods": mods })
}

fn repr_of(attrs: &[Attribute]) -> Option<String> {
    for a in attrs {
        if a.path().is_ident("repr") {
            if let Meta::List(l) = &a.meta {
                return Some(pp::flat(&l.tokens));
            }
        }
    }
    None
}

const FOREIGN_DERIVES: [&str; 11] = [
    "Clone", "Copy", "PartialEq", "Eq", "StructuralPartialEq", "TrivialClone", "PartialOrd", "Ord", "Hash", "Default", "StructuralEq",
];

fn is_foreign_derive(im: &ItemImpl) -> bool {
    if !im.attrs.iter().any(|a| a.path().is_ident("automatically_derived")) {
        return false;
    }
    match &im.trait_ {
        Some((_, p, _)) => FOREIGN_DERIVES.contains(&p.segments.last().unwrap().ident.to_string().as_str()),
        None => false,
    }
}

fn vis_str(v: &Visibility) -> String {
    flat(v)
}

fn extract_mod(name: &str, items: &[Item], overlay: &Value) -> Option<Value> {
    // the enum: first enum item carrying a repr attribute
    let en = items.iter().find_map(|i| match i {
        Item::Enum(e) if repr_of(&e.attrs).is_some() => Some(e),
        _ => None,
    })?;
    let enum_ident = en.ident.to_string();
    let repr = repr_of(&en.attrs).unwrap();

    let mut rename = BTreeMap::new();
    rename.insert(enum_ident.clone(), "E".to_string());

    // generated structs: every struct of the module
    let mut structs = Vec::new();
    let mut struct_idents = Vec::new();
    for i in items {
        if let Item::Struct(s) = i {
            struct_idents.push(s.ident.to_string());
        }
    }
    // which struct is the item iterator / the names iterator is decided by Item type below

    // inherent impl of the enum
    let mut consts: BTreeMap<String, (String, bool)> = BTreeMap::new();
    for i in items {
        if let Item::Impl(im) = i {
            if im.trait_.is_none() && flat(&im.self_ty) == enum_ident {
                for ii in &im.items {
                    if let ImplItem::Const(c) = ii {
                        let ty = flat(&c.ty);
                        let is_enum = ty == enum_ident || ty == "Self";
                        consts.insert(c.ident.to_string(), (ty, is_enum));
                    }
                }
            }
        }
    }
    // struct canonical names from their Iterator impl's Item type
    for i in items {
        if let Item::Impl(im) = i {
            if let Some((_, p, _)) = &im.trait_ {
                if path_str(p).ends_with("iter::Iterator") {
                    let st = flat(&im.self_ty);
                    for ii in &im.items {
                        if let ImplItem::Type(t) = ii {
                            if t.ident == "Item" {
                                let it = flat(&t.ty);
                                if it == enum_ident {
                                    rename.insert(st.clone(), "EIter".to_string());
                                } else {
                                    rename.insert(st.clone(), "ENames".to_string());
                                }
                            }
                        }
                    }
                }
            }
        }
    }
    let ctx = ModCtx { enum_ident: enum_ident.clone(), repr: repr.clone(), consts, rename };

    for i in items {
        if let Item::Struct(s) = i {
            let mut fields = Vec::new();
            for f in &s.fields {
                let mut ty = f.ty.clone();
                Renamer { ctx: &ctx }.visit_type_mut(&mut ty);
                fields.push(json!({
                    "name": f.ident.as_ref().map(|i| i.to_string()).unwrap_or_default(),
                    "vis": vis_str(&f.vis),
                    "ty": flat(&f.ty),
                    "ty_canon": flat(&ty),
                }));
            }
            structs.push(json!({
                "name": s.ident.to_string(),
                "canon": ctx.rename.get(&s.ident.to_string()).cloned().unwrap_or_default(),
                "vis": vis_str(&s.vis),
                "generics": flat(&s.generics),
                "fields": fields,
                "attrs": s.attrs.iter().map(|a| flat(a)).collect::<Vec<_>>(),
            }));
        }
    }

    let variants: Vec<Value> = en
        .variants
        .iter()
        .map(|v| {
            json!({
                "ident": v.ident.to_string(),
                "disc": v.discriminant.as_ref().map(|(_, e)| flat(e)),
                "fields": !matches!(v.fields, Fields::Unit),
                "attrs": v.attrs.iter().map(|a| flat(a)).collect::<Vec<_>>(),
            })
        })
        .collect();

    let mut consts_out = Vec::new();
    let mut impls_out = Vec::new();
    let mut fns_out = Vec::new();
    let mut inherent_impls = 0usize;

    for i in items {
        let im = match i {
            Item::Impl(im) => im,
            _ => continue,
        };
        // skip impls produced by other derives (Clone, Copy, PartialEq, …); an `automatically_derived`
        // attribute on one of the macro's own impls does not hide it
        if is_foreign_derive(im) {
            continue;
        }
        let self_ty_s = flat(&im.self_ty);
        let mentions = |s: &str| -> bool {
            let t = format!(" {} ", s);
            let hay = format!(" {} ", flat(im));
            ctx.rename.keys().any(|k| hay.contains(&format!(" {} ", k))) || hay.contains(&t)
        };
        if !mentions(&enum_ident) {
            continue;
        }
        let trait_s = im.trait_.as_ref().map(|(_, p, _)| flat(p));
        let trait_last = im
            .trait_
            .as_ref()
            .map(|(_, p, _)| p.segments.last().unwrap().ident.to_string());
        let self_canon = if let Some(c) = ctx.rename.get(&self_ty_s) {
            c.clone()
        } else if self_ty_s == repr {
            "R".to_string()
        } else if self_ty_s == "& 'static str" {
            "Str".to_string()
        } else {
            self_ty_s.clone()
        };
        if im.trait_.is_none() && self_ty_s == enum_ident {
            inherent_impls += 1;
        }
        // associated types of every trait impl of this self type (Self::Item in DoubleEndedIterator
        // is declared by the Iterator impl)
        let mut assoc_types = BTreeMap::new();
        for j in items {
            if let Item::Impl(jm) = j {
                if flat(&jm.self_ty) == self_ty_s {
                    for ii in &jm.items {
                        if let ImplItem::Type(t) = ii {
                            assoc_types.insert(t.ident.to_string(), t.ty.clone());
                        }
                    }
                }
            }
        }
        let mut item_names = Vec::new();
        for ii in &im.items {
            match ii {
                ImplItem::Const(c) => {
                    item_names.push(format!("const {}", c.ident));
                    if im.trait_.is_none() {
                        consts_out.push(json!({
                            "name": c.ident.to_string(),
                            "vis": vis_str(&c.vis),
                            "ty": flat(&c.ty),
                            "init": flat(&c.expr),
                            "init_pretty": c.expr.to_token_stream().to_string(),
                            "attrs": c.attrs.iter().filter(|a| !a.path().is_ident("doc")).map(|a| flat(a)).collect::<Vec<_>>(),
                        }));
                    }
                }
                ImplItem::Type(t) => item_names.push(format!("type {}", t.ident)),
                ImplItem::Fn(f) => {
                    item_names.push(format!("fn {}", f.sig.ident));
                    let key = match &trait_last {
                        None => format!("{}::{}", self_canon, f.sig.ident),
                        Some(t) => format!("{}[{}]::{}", t, self_canon, f.sig.ident),
                    };
                    fns_out.push(extract_fn(
                        &ctx,
                        &key,
                        &self_canon,
                        &im.self_ty,
                        trait_s.as_deref(),
                        trait_last.as_deref(),
                        &assoc_types,
                        f,
                        overlay.get(name).and_then(|m| m.get(&key)).or_else(|| overlay.get("*").and_then(|m| m.get(&key))),
                    ));
                }
                other => item_names.push(format!("other {}", flat(other))),
            }
        }
        impls_out.push(json!({
            "trait": trait_s,
            "trait_last": trait_last,
            "self_ty": self_ty_s,
            "self_canon": self_canon,
            "unsafe": im.unsafety.is_some(),
            "generics": flat(&im.generics),
            "where": im.generics.where_clause.as_ref().map(|w| flat(w)),
            "assoc_types": assoc_types.iter().map(|(k, v)| (k.clone(), Value::String(flat(v)))).collect::<Map<String, Value>>(),
            "items": item_names,
        }));
    }

    // every item of the module, for surface checks (C15)
    let mut mod_items = Vec::new();
    for i in items {
        let d = match i {
            Item::Enum(e) => format!("enum {}", e.ident),
            Item::Struct(s) => format!("struct {}", s.ident),
            Item::Impl(im) => {
                if is_foreign_derive(im) {
                    continue;
                }
                format!(
                    "impl {} for {}",
                    im.trait_.as_ref().map(|(_, p, _)| flat(p)).unwrap_or_default(),
                    flat(&im.self_ty)
                )
            }
            Item::Use(u) => format!("use {}", flat(&u.tree)),
            other => format!("other {}", flat(other).chars().take(60).collect::<String>()),
        };
        mod_items.push(d);
    }

    Some(json!({
        "mod": name,
        "enum": {
            "ident": enum_ident,
            "repr": repr,
            "vis": vis_str(&en.vis),
            "variants": variants,
        },
        "rename": ctx.rename,
        "consts": consts_out,
        "structs": structs,
        "impls": impls_out,
        "fns": fns_out,
        "inherent_impls": inherent_impls,
        "mod_items": mod_items,
    }))
}

/// plain identifier renaming (enum -> E, iterator structs -> EIter / ENames)
struct Renamer<'a> {
    ctx: &'a ModCtx,
}
impl<'a> VisitMut for Renamer<'a> {
    fn visit_ident_mut(&mut self, i: &mut Ident) {
        if let Some(n) = self.ctx.rename.get(&i.to_string()) {
            *i = Ident::new(n, i.span());
        }
    }
}

/// collects every path, method name and macro used by an item (for C16 / forwarding checks)
#[derive(Default)]
struct Uses {
    paths: BTreeSet<String>,
    methods: BTreeSet<String>,
    macros: BTreeSet<String>,
    uses: BTreeSet<String>,
    bindings: BTreeSet<String>,
    unsafe_blocks: usize,
}
impl<'ast> Visit<'ast> for Uses {
    fn visit_path(&mut self, p: &'ast Path) {
        self.paths.insert(path_str(p));
        visit::visit_path(self, p);
    }
    fn visit_expr_method_call(&mut self, m: &'ast ExprMethodCall) {
        self.methods.insert(m.method.to_string());
        visit::visit_expr_method_call(self, m);
    }
    fn visit_macro(&mut self, m: &'ast Macro) {
        self.macros.insert(path_str(&m.path));
    }
    fn visit_item_use(&mut self, u: &'ast ItemUse) {
        self.uses.insert(format!(
            "{}{}",
            if u.leading_colon.is_some() { "::" } else { "" },
            flat(&u.tree)
        ));
    }
    fn visit_attribute(&mut self, _a: &'ast Attribute) {
        // attribute paths (inline, doc, …) are not names of the user's scope
    }
    fn visit_pat_ident(&mut self, p: &'ast PatIdent) {
        self.bindings.insert(p.ident.to_string());
        visit::visit_pat_ident(self, p);
    }
    fn visit_generic_param(&mut self, g: &'ast GenericParam) {
        if let GenericParam::Type(t) = g {
            self.bindings.insert(t.ident.to_string());
        }
        visit::visit_generic_param(self, g);
    }
    fn visit_expr_unsafe(&mut self, u: &'ast ExprUnsafe) {
        self.unsafe_blocks += 1;
        visit::visit_expr_unsafe(self, u);
    }
}

#[allow(clippy::too_many_arguments)]
fn extract_fn(
    ctx: &ModCtx,
    key: &str,
    self_canon: &str,
    self_ty: &Type,
    trait_s: Option<&str>,
    trait_last: Option<&str>,
    assoc_types: &BTreeMap<String, Type>,
    f: &ImplItemFn,
    ov: Option<&Value>,
) -> Value {
    let mut uses = Uses::default();
    uses.visit_impl_item_fn(f);

    let owner_is_enum = self_canon == "E";
    let owner_is_struct = self_canon == "EIter" || self_canon == "ENames";

    // parameters
    let mut inputs = Vec::new();
    let mut enum_locals = BTreeSet::new();
    let mut self_kind = "none";
    for a in &f.sig.inputs {
        match a {
            FnArg::Receiver(r) => {
                self_kind = if r.reference.is_some() {
                    if r.mutability.is_some() {
                        "&mut self"
                    } else {
                        "&self"
                    }
                } else {
                    "self"
                };
                inputs.push(json!(["self", self_kind]));
            }
            FnArg::Typed(pt) => {
                let n = flat(&pt.pat);
                let t = flat(&pt.ty);
                if t == ctx.enum_ident || (t == "Self" && owner_is_enum) {
                    enum_locals.insert(n.clone());
                }
                inputs.push(json!([n, t]));
            }
        }
    }

    // ---- rewrite -----------------------------------------------------------------------------
    let mut rw = Rw {
        ctx,
        owner_is_enum,
        self_kind,
        enum_locals,
        ov,
        loop_no: 0,
        closure_no: 0,
        return_no: 0,
        rules: BTreeMap::new(),
        errors: Vec::new(),
        unsafe_seen: 0,
        unsafe_consumed: 0,
        used_anchors: BTreeSet::new(),
        subst_self: if owner_is_enum || owner_is_struct { None } else { Some(self_ty.clone()) },
        assoc: assoc_types.clone(),
        lits: Vec::new(),
        lit_prefix: key.chars().map(|c| if c.is_ascii_alphanumeric() { c } else { '_' }).collect(),
        rules_enabled: true,
        anchor_seen: BTreeMap::new(),
    };

    // canonical (overlay-free) body: for uniformity comparison
    let mut canon_block = f.block.clone();
    {
        let mut rw0 = Rw { ov: None, ..rw.clone_shallow() };
        rw0.visit_block_mut(&mut canon_block);
    }
    // trailing commas depend on rustc's line breaking of the expansion, not on the macro's output
    let canon_body = flat(&canon_block).replace(" , }", " }").replace(" , )", " )").replace(" , ]", " ]");

    let mut block = f.block.clone();
    rw.visit_block_mut(&mut block);

    // signature
    let mut sig = f.sig.clone();
    for a in sig.inputs.iter_mut() {
        if let FnArg::Typed(pt) = a {
            rw.visit_type_mut(&mut pt.ty);
        }
    }
    let ret_ty: TokenStream = match &mut sig.output {
        ReturnType::Default => quote!(()),
        ReturnType::Type(_, t) => {
            rw.visit_type_mut(t);
            t.to_token_stream()
        }
    };
    let emitted_name = ov
        .and_then(|o| o.get("name"))
        .and_then(|v| v.as_str())
        .map(|s| s.to_string())
        .unwrap_or_else(|| match trait_last {
            None => f.sig.ident.to_string(),
            Some(t) if owner_is_enum || owner_is_struct => format!("{}_{}", t, f.sig.ident),
            Some(t) => format!("{}_{}_{}", t, self_canon, f.sig.ident),
        });
    let name_id = Ident::new(&emitted_name, Span::call_site());
    let ret_binder = ov.and_then(|o| o.get("ret")).and_then(|v| v.as_str()).unwrap_or("res");
    let ret_id = Ident::new(ret_binder, Span::call_site());
    let spec = ov.and_then(|o| o.get("spec")).and_then(|v| v.as_str()).map(ts).unwrap_or_default();
    let entry = ov.and_then(|o| o.get("entry")).and_then(|v| v.as_str()).map(ts).unwrap_or_default();
    let inputs_ts = &sig.inputs;
    let generics = &sig.generics;
    let where_clause = &sig.generics.where_clause;
    let constness = &sig.constness;
    let stmts = &block.stmts;
    let verus_fn = quote! {
        pub #constness fn #name_id #generics ( #inputs_ts ) -> ( #ret_id : #ret_ty ) #where_clause
        #spec
        {
            #entry
            #(#stmts)*
        }
    };

    // the same function as a contract-only stub (used when the body is outside the supported subset
    // or the overlay no longer applies: callers are then still checked against the contract)
    let verus_stub = quote! {
        #[verifier::external_body]
        pub #constness fn #name_id #generics ( #inputs_ts ) -> ( #ret_id : #ret_ty ) #where_clause
        #spec
        {
            unimplemented!()
        }
    };

    // overlay anchors that were never used are an error (lost anchor => undecided)
    if let Some(o) = ov {
        for (sect, n) in [("loops", rw.loop_no), ("closures", rw.closure_no), ("before_return", rw.return_no)] {
            if let Some(m) = o.get(sect).and_then(|v| v.as_object()) {
                for k in m.keys() {
                    let idx: usize = k.parse().unwrap_or(usize::MAX);
                    if idx >= n {
                        rw.errors.push(format!("overlay {sect}[{k}] has no matching site (only {n} in body)"));
                    }
                }
            }
        }
        for sect in ["after_stmt", "before_stmt"] {
            if let Some(a) = o.get(sect).and_then(|v| v.as_array()) {
                for (i, e) in a.iter().enumerate() {
                    if !rw.used_anchors.contains(&format!("{sect}{i}")) {
                        rw.errors.push(format!(
                            "overlay {sect} anchor {:?} not found",
                            e.get("anchor").and_then(|v| v.as_str()).unwrap_or("")
                        ));
                    }
                }
            }
        }
    }

    let place = if owner_is_enum {
        "E"
    } else if owner_is_struct {
        self_canon
    } else {
        "free"
    };

    json!({
        "key": key,
        "owner": flat(self_ty),
        "owner_canon": self_canon,
        "trait": trait_s,
        "trait_last": trait_last,
        "name": f.sig.ident.to_string(),
        "emitted_name": emitted_name,
        "place": place,
        "vis": vis_str(&f.vis),
        "const": f.sig.constness.is_some(),
        "unsafe_fn": f.sig.unsafety.is_some(),
        "generics": flat(&f.sig.generics),
        "sig": flat(&f.sig),
        "inputs": inputs,
        "output": match &f.sig.output { ReturnType::Default => "()".to_string(), ReturnType::Type(_, t) => flat(t) },
        "attrs": f.attrs.iter().filter(|a| !a.path().is_ident("doc")).map(|a| flat(a)).collect::<Vec<_>>(),
        "raw": flat(&f.block),
        "canon": canon_body,
        "verus": pp::pretty(&verus_fn, 1),
        "verus_stub": pp::pretty(&verus_stub, 1),
        "rules": rw.rules,
        "lits": rw.lits,
        "errors": rw.errors,
        "unsafe_blocks": uses.unsafe_blocks,
        "unsafe_consumed": rw.unsafe_consumed,
        "loops": rw.loop_no,
        "closures": rw.closure_no,
        "returns": rw.return_no,
        "paths": uses.paths,
        "methods": uses.methods,
        "macros": uses.macros,
        "uses": uses.uses,
        "bindings": uses.bindings,
    })
}

pub struct Rw<'a> {
    ctx: &'a ModCtx,
    owner_is_enum: bool,
    self_kind: &'a str,
    enum_locals: BTreeSet<String>,
    ov: Option<&'a Value>,
    loop_no: usize,
    closure_no: usize,
    return_no: usize,
    rules: BTreeMap<String, usize>,
    errors: Vec<String>,
    unsafe_seen: usize,
    unsafe_consumed: usize,
    used_anchors: BTreeSet<String>,
    /// `Self` is replaced by this type (impls whose self type is not one of ours)
    subst_self: Option<Type>,
    assoc: BTreeMap<String, Type>,
    lits: Vec<String>,
    lit_prefix: String,
    /// false for generator slices (layer G): only the overlay machinery is applied
    rules_enabled: bool,
    anchor_seen: BTreeMap<String, usize>,
}

impl<'a> Rw<'a> {
    fn clone_shallow(&self) -> Rw<'a> {
        Rw {
            ctx: self.ctx,
            owner_is_enum: self.owner_is_enum,
            self_kind: self.self_kind,
            enum_locals: self.enum_locals.clone(),
            ov: self.ov,
            loop_no: 0,
            closure_no: 0,
            return_no: 0,
            rules: BTreeMap::new(),
            errors: Vec::new(),
            unsafe_seen: 0,
            unsafe_consumed: 0,
            used_anchors: BTreeSet::new(),
            subst_self: self.subst_self.clone(),
            assoc: self.assoc.clone(),
            lits: Vec::new(),
            lit_prefix: self.lit_prefix.clone(),
            rules_enabled: self.rules_enabled,
            anchor_seen: BTreeMap::new(),
        }
    }

    fn rule(&mut self, r: &str) {
        *self.rules.entry(r.to_string()).or_insert(0) += 1;
    }

    fn ov_get(&self, sect: &str, idx: usize) -> Option<&'a Value> {
        self.ov.and_then(|o| o.get(sect)).and_then(|m| m.get(idx.to_string()))
    }

    /// is `e` (already rewritten) an expression of the enum type, syntactically?
    fn is_enum_expr(&self, e: &Expr) -> bool {
        match e {
            Expr::Paren(p) => self.is_enum_expr(&p.expr),
            Expr::Path(p) => {
                if p.path.is_ident("self") {
                    return self.owner_is_enum && self.self_kind == "self";
                }
                if let Some(i) = p.path.get_ident() {
                    return self.enum_locals.contains(&i.to_string());
                }
                false
            }
            Expr::Unary(u) => {
                if let UnOp::Deref(_) = u.op {
                    if let Expr::Path(p) = &*u.expr {
                        if p.path.is_ident("self") {
                            return self.owner_is_enum && self.self_kind == "&self";
                        }
                    }
                }
                false
            }
            Expr::Call(c) => {
                // accessor call produced by R3 on an enum-typed constant
                if !c.args.is_empty() {
                    return false;
                }
                if let Expr::Path(p) = &*c.func {
                    if let Some(name) = self.const_path(&p.path) {
                        return self.ctx.consts.get(&name).map(|c| c.1).unwrap_or(false);
                    }
                }
                false
            }
            _ => false,
        }
    }

    /// `Self::X` / `E::X` where X is an associated constant of the inherent impl
    fn const_path(&self, p: &Path) -> Option<String> {
        if p.leading_colon.is_some() || p.segments.len() != 2 {
            return None;
        }
        let a = p.segments[0].ident.to_string();
        let b = p.segments[1].ident.to_string();
        let owner_ok = (a == "Self" && self.owner_is_enum) || a == self.ctx.enum_ident || a == "E";
        if owner_ok && self.ctx.consts.contains_key(&b) {
            Some(b)
        } else {
            None
        }
    }


    fn apply_overlay(&mut self, e: &mut Expr, my_loop: Option<usize>, my_closure: Option<usize>, my_return: Option<usize>) {
        // overlay: loops / closures / returns ------------------------------------------------
        if let Some(n) = my_loop {
            let o = self.ov_get("loops", n);
            let spec = o.and_then(|o| o.get("spec")).and_then(|v| v.as_str()).map(ts).unwrap_or_default();
            let ghost = o.and_then(|o| o.get("ghost")).and_then(|v| v.as_str());
            let head = o.and_then(|o| o.get("head")).and_then(|v| v.as_str()).map(ts).unwrap_or_default();
            match e {
                Expr::ForLoop(f) => {
                    // R4: by-value iteration over a table constant
                    let mut iter_expr = (*f.expr).clone();
                    if let Expr::Call(c) = &iter_expr {
                        if c.args.is_empty() {
                            if let Expr::Path(p) = &*c.func {
                                if self.const_path(&p.path).is_some() {
                                    iter_expr = parse_quote!(#iter_expr.iter());
                                    self.rule("R4");
                                }
                            }
                        }
                    }
                    let pat = &f.pat;
                    let body_stmts = &f.body.stmts;
                    let label = &f.label;
                    let g = match ghost {
                        Some(g) => {
                            let gi = Ident::new(g, Span::call_site());
                            quote!(#gi :)
                        }
                        None => quote!(),
                    };
                    *e = Expr::Verbatim(quote!(#label for #pat in #g #iter_expr #spec { #head #(#body_stmts)* }));
                }
                Expr::Loop(l) => {
                    let body_stmts = &l.body.stmts;
                    let label = &l.label;
                    *e = Expr::Verbatim(quote!(#label loop #spec { #head #(#body_stmts)* }));
                }
                Expr::While(w) => {
                    let body_stmts = &w.body.stmts;
                    let label = &w.label;
                    let cond = &w.cond;
                    *e = Expr::Verbatim(quote!(#label while #cond #spec { #head #(#body_stmts)* }));
                }
                _ => {}
            }
        }
        if let Some(n) = my_closure {
            if let Some(o) = self.ov_get("closures", n) {
                if let Expr::Closure(c) = e {
                    let params = o.get("params").and_then(|v| v.as_str()).map(ts);
                    let ret = o.get("ret").and_then(|v| v.as_str()).map(ts).unwrap_or_default();
                    let spec = o.get("spec").and_then(|v| v.as_str()).map(ts).unwrap_or_default();
                    let body = &c.body;
                    let inputs = &c.inputs;
                    let params = params.unwrap_or_else(|| quote!(#inputs));
                    let mv = &c.capture;
                    *e = Expr::Verbatim(quote!(#mv |#params| #ret #spec { #body }));
                }
            }
        }
        if let Some(n) = my_return {
            if let Some(o) = self.ov_get("before_return", n) {
                if let Some(t) = o.as_str() {
                    let t = ts(t);
                    let inner = e.clone();
                    *e = Expr::Verbatim(quote!({ #t #inner }));
                }
            }
        }
    }

    /// Layer G token-construction abstraction (DESIGN §3.2):
    ///   G1  LitInt::new(&format!("{X}{repr}"), _)  ->  __lit(X, repr)
    ///   G2  quote! { … #a … #b … }                 ->  __quote_<n>(a, b, …)   (template text recorded)
    fn generator_rules(&mut self, e: &mut Expr) {
        match e {
            Expr::Call(c) => {
                if let Expr::Path(p) = &*c.func {
                    if path_str(&p.path).ends_with("LitInt::new") && c.args.len() == 2 {
                        if let Expr::Reference(r) = &c.args[0] {
                            if let Expr::Macro(m) = &*r.expr {
                                if m.mac.path.is_ident("format") {
                                    let toks: Vec<proc_macro2::TokenTree> = m.mac.tokens.clone().into_iter().collect();
                                    if toks.len() == 1 {
                                        let lit = toks[0].to_string();
                                        let inner = lit.trim_matches('"');
                                        let names: Vec<&str> = inner.split(|c| c == '{' || c == '}').filter(|x| !x.is_empty()).collect();
                                        let literal_text = inner.replace('{', "").replace('}', "");
                                        if names.concat() == literal_text && !names.is_empty() {
                                            let ids: Vec<Ident> = names.iter().map(|n| Ident::new(n, Span::call_site())).collect();
                                            *e = parse_quote!(__lit(#(#ids),*));
                                            self.rule("G1");
                                            return;
                                        }
                                    }
                                    self.errors.push(format!("G1: unsupported format! argument {}", m.mac.tokens));
                                }
                            }
                        }
                    }
                }
            }
            Expr::Macro(m) => {
                if m.mac.path.is_ident("quote") {
                    let mut vars: Vec<Ident> = Vec::new();
                    fn walk(ts: TokenStream, vars: &mut Vec<Ident>) {
                        let v: Vec<proc_macro2::TokenTree> = ts.into_iter().collect();
                        let mut i = 0;
                        while i < v.len() {
                            match &v[i] {
                                proc_macro2::TokenTree::Punct(p) if p.as_char() == '#' => {
                                    if let Some(proc_macro2::TokenTree::Ident(id)) = v.get(i + 1) {
                                        vars.push(id.clone());
                                        i += 1;
                                    }
                                }
                                proc_macro2::TokenTree::Group(g) => walk(g.stream(), vars),
                                _ => {}
                            }
                            i += 1;
                        }
                    }
                    walk(m.mac.tokens.clone(), &mut vars);
                    let n = self.lits.len();
                    self.lits.push(pp::flat(&m.mac.tokens));
                    let id = Ident::new(&format!("__quote_{}", n), Span::call_site());
                    *e = parse_quote!(#id(#(&#vars),*));
                    self.rule("G2");
                }
            }
            _ => {}
        }
    }

    fn is_transmute(p: &Path) -> bool {
        let s = path_str(p);
        s == "::core::mem::transmute" || s == "core::mem::transmute" || s == "::std::mem::transmute" || s == "std::mem::transmute" || s == "transmute"
    }
}

impl<'a> VisitMut for Rw<'a> {
    fn visit_ident_mut(&mut self, i: &mut Ident) {
        if let Some(n) = self.ctx.rename.get(&i.to_string()) {
            *i = Ident::new(n, i.span());
        }
    }

    fn visit_type_mut(&mut self, t: &mut Type) {
        // Self::Item etc. in trait impls; Self in impls on foreign types
        if let Type::Path(tp) = t {
            if tp.qself.is_none() && tp.path.leading_colon.is_none() {
                if tp.path.segments.len() == 2 && tp.path.segments[0].ident == "Self" {
                    let n = tp.path.segments[1].ident.to_string();
                    if let Some(a) = self.assoc.get(&n) {
                        let mut a = a.clone();
                        self.visit_type_mut(&mut a);
                        *t = a;
                        return;
                    }
                }
                if tp.path.is_ident("Self") {
                    if let Some(s) = &self.subst_self {
                        let mut s = s.clone();
                        self.visit_type_mut(&mut s);
                        *t = s;
                        return;
                    }
                }
            }
        }
        visit_mut::visit_type_mut(self, t);
    }

    fn visit_stmt_mut(&mut self, st: &mut Stmt) {
        // a macro in statement position (`quote! { .. }` as a block's tail) is an expression
        if let Stmt::Macro(sm) = st {
            let e = Expr::Macro(ExprMacro { attrs: sm.attrs.clone(), mac: sm.mac.clone() });
            *st = Stmt::Expr(e, sm.semi_token);
        }
        visit_mut::visit_stmt_mut(self, st);
    }

    fn visit_block_mut(&mut self, b: &mut Block) {
        // visit statements, then apply statement-anchored overlay insertions
        let mut out: Vec<Stmt> = Vec::new();
        let stmts = std::mem::take(&mut b.stmts);
        for mut s in stmts {
            // anchor text is the statement after identifier canonicalisation and rules R1-R9
            self.visit_stmt_mut(&mut s);
            let anchor_text = flat(&s);
            // `use` declarations inside bodies are kept (Verus accepts them)
            let mut before = Vec::new();
            let mut after = Vec::new();
            if let Some(o) = self.ov {
                for (sect, dst) in [("before_stmt", &mut before), ("after_stmt", &mut after)] {
                    if let Some(a) = o.get(sect).and_then(|v| v.as_array()) {
                        for (i, e) in a.iter().enumerate() {
                            let anchor = e.get("anchor").and_then(|v| v.as_str()).unwrap_or("\u{0}");
                            let want = e.get("occurrence").and_then(|v| v.as_u64()).unwrap_or(1) as usize;
                            if anchor_text.starts_with(anchor) && !self.used_anchors.contains(&format!("{sect}{i}")) {
                                let seen = self.anchor_seen.entry(format!("{sect}{i}")).or_insert(0);
                                *seen += 1;
                                if *seen != want {
                                    continue;
                                }
                                self.used_anchors.insert(format!("{sect}{i}"));
                                let text = e.get("text").and_then(|v| v.as_str()).unwrap_or("");
                                dst.push(Stmt::Expr(Expr::Verbatim(ts(text)), None));
                            }
                        }
                    }
                }
            }
            out.extend(before);
            out.push(s);
            out.extend(after);
        }
        b.stmts = out;
    }

    fn visit_expr_mut(&mut self, e: &mut Expr) {
        // numbering is pre-order (source order), rewriting is post-order
        let (my_loop, my_closure, my_return) = match e {
            Expr::Loop(_) | Expr::ForLoop(_) | Expr::While(_) => {
                self.loop_no += 1;
                (Some(self.loop_no - 1), None, None)
            }
            Expr::Closure(_) => {
                self.closure_no += 1;
                (None, Some(self.closure_no - 1), None)
            }
            Expr::Return(_) => {
                self.return_no += 1;
                (None, None, Some(self.return_no - 1))
            }
            _ => (None, None, None),
        };
        if let Expr::Unsafe(_) = e {
            self.unsafe_seen += 1;
        }
        // R9 on a negated suffixed literal: `-2i8` is one literal of the macro's output
        if !self.rules_enabled {
            visit_mut::visit_expr_mut(self, e);
            self.generator_rules(e);
            self.apply_overlay(e, my_loop, my_closure, my_return);
            return;
        }
        if let Expr::Unary(u) = e {
            if let (UnOp::Neg(_), Expr::Lit(l)) = (&u.op, &*u.expr) {
                if let Lit::Int(li) = &l.lit {
                    if !li.suffix().is_empty() {
                        let n = self.lits.len();
                        self.lits.push(format!("-{}", li));
                        let id = Ident::new(&format!("__vx_lit_{}_{}", self.lit_prefix, n), Span::call_site());
                        *e = parse_quote!(#id());
                        self.rule("R9");
                        return;
                    }
                }
            }
        }
        visit_mut::visit_expr_mut(self, e);

        match e {
            // R1 --------------------------------------------------------------------------------
            Expr::Call(c) => {
                if let Expr::Path(p) = &*c.func {
                    if Self::is_transmute(&p.path) && c.args.len() == 1 {
                        let arg = &c.args[0];
                        *e = parse_quote!(E::__from_repr(#arg));
                        self.rule("R1");
                        self.unsafe_consumed += 1;
                    }
                }
            }
            // R2 / R8 ---------------------------------------------------------------------------
            Expr::Cast(c) => {
                let ty = flat(&c.ty);
                if INT_TYPES.contains(&ty.as_str()) {
                    if self.is_enum_expr(&c.expr) {
                        let inner = &c.expr;
                        *e = parse_quote!((#inner).0);
                        self.rule("R2");
                        if ty != self.ctx.repr {
                            self.errors.push(format!("R2: enum cast to {ty}, which is not the repr {}", self.ctx.repr));
                        }
                    } else {
                        let inner = &c.expr;
                        let t = &c.ty;
                        *e = Expr::Verbatim(quote!((#[verifier::truncate] (#inner as #t))));
                        self.rule("R8");
                    }
                }
            }
            // R9: suffixed integer literals in a body are per-enum data (min/max/count literals)
            Expr::Lit(l) => {
                if let Lit::Int(li) = &l.lit {
                    if !li.suffix().is_empty() {
                        let n = self.lits.len();
                        self.lits.push(li.to_string());
                        let id = Ident::new(&format!("__vx_lit_{}_{}", self.lit_prefix, n), Span::call_site());
                        *e = parse_quote!(#id());
                        self.rule("R9");
                    }
                }
            }
            // R3 --------------------------------------------------------------------------------
            Expr::Path(p) => {
                if p.qself.is_none() {
                    if let Some(_name) = self.const_path(&p.path) {
                        let path = &p.path;
                        *e = parse_quote!(#path());
                        self.rule("R3");
                    }
                }
            }
            // R5 / R7 ---------------------------------------------------------------------------
            Expr::MethodCall(m) => {
                let name = m.method.to_string();
                let recv = &m.receiver;
                let args: Vec<&Expr> = m.args.iter().collect();
                match (name.as_str(), args.len()) {
                    ("find", 1) => {
                        let a = args[0];
                        *e = Expr::Verbatim(quote!(__vx_find(#recv, #a)));
                        self.rule("R5");
                    }
                    ("copied", 0) => {
                        *e = Expr::Verbatim(quote!(__vx_copied(#recv)));
                        self.rule("R5");
                    }
                    ("enumerate", 0) => {
                        *e = Expr::Verbatim(quote!(__vx_enumerate(#recv)));
                        self.rule("R5");
                    }
                    ("write_str", 1) => {
                        let a = args[0];
                        *e = Expr::Verbatim(quote!(__vx_write_str(#recv, #a)));
                        self.rule("R5");
                    }
                    ("map", 1) => {
                        // R7: only for a parenthesised inclusive range receiver
                        let mut r: &Expr = recv;
                        while let Expr::Paren(p) = r {
                            r = &p.expr;
                        }
                        if let Expr::Range(rg) = r {
                            if let (Some(s), Some(en), RangeLimits::Closed(_)) = (&rg.start, &rg.end, &rg.limits) {
                                let a = args[0];
                                *e = Expr::Verbatim(quote!(__vx_range_map(#s, #en, #a)));
                                self.rule("R7");
                            }
                        }
                    }
                    _ => {}
                }
            }
            _ => {}
        }

        self.apply_overlay(e, my_loop, my_closure, my_return);
    }
}

/// Layer G: apply only the annotation overlay to a list of statements sliced verbatim from the
/// generator's source.  Returns (pretty text, flat canonical text of the unannotated slice, errors).
pub fn annotate_slice(stmts: Vec<Stmt>, ov: Option<&Value>) -> (String, String, Vec<String>, Vec<String>) {
    let ctx = ModCtx { enum_ident: "\u{0}".to_string(), repr: "\u{0}".to_string(), consts: BTreeMap::new(), rename: BTreeMap::new() };
    let raw = stmts.iter().map(|s| flat(s)).collect::<Vec<_>>().join(" ");
    let mut rw = Rw {
        ctx: &ctx,
        owner_is_enum: false,
        self_kind: "none",
        enum_locals: BTreeSet::new(),
        ov,
        loop_no: 0,
        closure_no: 0,
        return_no: 0,
        rules: BTreeMap::new(),
        errors: Vec::new(),
        unsafe_seen: 0,
        unsafe_consumed: 0,
        used_anchors: BTreeSet::new(),
        subst_self: None,
        assoc: BTreeMap::new(),
        lits: Vec::new(),
        lit_prefix: String::new(),
        rules_enabled: false,
        anchor_seen: BTreeMap::new(),
    };
    let mut block = Block { brace_token: Default::default(), stmts };
    rw.visit_block_mut(&mut block);
    if let Some(o) = ov {
        for (sect, n) in [("loops", rw.loop_no), ("closures", rw.closure_no), ("before_return", rw.return_no)] {
            if let Some(m) = o.get(sect).and_then(|v| v.as_object()) {
                for k in m.keys() {
                    let idx: usize = k.parse().unwrap_or(usize::MAX);
                    if idx >= n {
                        rw.errors.push(format!("overlay {sect}[{k}] has no matching site (only {n} in slice)"));
                    }
                }
            }
        }
        for sect in ["after_stmt", "before_stmt"] {
            if let Some(a) = o.get(sect).and_then(|v| v.as_array()) {
                for (i, e) in a.iter().enumerate() {
                    if !rw.used_anchors.contains(&format!("{sect}{i}")) {
                        rw.errors.push(format!("overlay {sect} anchor {:?} not found", e.get("anchor").and_then(|v| v.as_str()).unwrap_or("")));
                    }
                }
            }
        }
    }
    let stmts = &block.stmts;
    let text = pp::pretty(&quote!(#(#stmts)*), 2);
    (text, raw, rw.errors, rw.lits)
}
