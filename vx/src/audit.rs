//! Structural audit of the generator sources.
use serde_json::{json, Value};
use std::collections::BTreeMap;

pub fn collect(_dir: &str, _files: &mut BTreeMap<String, String>) {}

pub fn audit(_files: &BTreeMap<String, String>) -> Value {
    json!({})
}
