//! vx — extraction tool for the enum-tools verification machinery.
//!
//!   vx extract <expanded.rs> [<overlay.json>]
//!       parse the output of `rustc -Zunpretty=expanded` of a corpus crate, find every corpus
//!       module (`mod mNAME { … }`), and print one JSON document describing the enum, the generated
//!       items, and — per generated function — the body rewritten by rules R1–R8 (DESIGN §3.1),
//!       with the annotation overlay applied when one is given for that function.
//!   vx slice <file.rs> <what>
//!       print verbatim slices of generator source (layer G), see slice.rs.
//!   vx audit <dir>
//!       structural audit of /repo/src (HashMap iteration sites, unsafe in generator), see audit.rs.
//!
//! The tool never invents code: every token of a rewritten body is either a token of the input
//! or produced by one of the named rules; the rule applications are counted and reported.

mod pp;
mod rewrite;
mod slice;
mod audit;

use std::collections::BTreeMap;
use std::env;
use std::fs;

fn main() {
    let args: Vec<String> = env::args().collect();
    if args.len() < 3 {
        eprintln!("usage: vx extract <expanded.rs> [overlay.json] | vx slice <file.rs> <what> | vx audit <dir>");
        std::process::exit(2);
    }
    match args[1].as_str() {
        "extract" => {
            let src = fs::read_to_string(&args[2]).expect("read input");
            let overlay: serde_json::Value = if args.len() > 3 {
                serde_json::from_str(&fs::read_to_string(&args[3]).expect("read overlay"))
                    .expect("overlay json")
            } else {
                serde_json::Value::Object(Default::default())
            };
            let file = match syn::parse_file(&src) {
                Ok(f) => f,
                Err(e) => {
                    eprintln!("vx: cannot parse expansion: {e}");
                    std::process::exit(2);
                }
            };
            let out = rewrite::extract_file(&file, &overlay);
            println!("{}", serde_json::to_string(&out).unwrap());
        }
        "slice" => {
            let src = fs::read_to_string(&args[2]).expect("read input");
            let what = args.get(3).map(|s| s.as_str()).unwrap_or("");
            let out = slice::slice(&src, what);
            println!("{}", serde_json::to_string(&out).unwrap());
        }
        "audit" => {
            let mut files: BTreeMap<String, String> = BTreeMap::new();
            audit::collect(&args[2], &mut files);
            let out = audit::audit(&files);
            println!("{}", serde_json::to_string(&out).unwrap());
        }
        _ => {
            eprintln!("unknown subcommand");
            std::process::exit(2);
        }
    }
}
