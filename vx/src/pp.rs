//! Token-stream printers.
//!
//! `flat` — canonical one-line rendering (single spaces, used for token-identity comparisons).
//! `pretty` — the same tokens with line breaks after `;`, `{`, `}` directly inside brace groups,
//! so verifier diagnostics carry useful line numbers.

use proc_macro2::{Delimiter, Spacing, TokenStream, TokenTree};

pub fn flat(ts: &TokenStream) -> String {
    let mut out = String::new();
    flat_into(ts.clone(), &mut out);
    out.trim().to_string()
}

fn flat_into(ts: TokenStream, out: &mut String) {
    let mut joint = false;
    for tt in ts {
        if !joint && !out.is_empty() && !out.ends_with(' ') {
            out.push(' ');
        }
        joint = false;
        match tt {
            TokenTree::Group(g) => {
                let (o, c) = match g.delimiter() {
                    Delimiter::Parenthesis => ("(", ")"),
                    Delimiter::Brace => ("{", "}"),
                    Delimiter::Bracket => ("[", "]"),
                    Delimiter::None => ("", ""),
                };
                out.push_str(o);
                let mut inner = String::new();
                flat_into(g.stream(), &mut inner);
                if !inner.is_empty() {
                    out.push(' ');
                    out.push_str(inner.trim());
                    out.push(' ');
                }
                out.push_str(c);
            }
            TokenTree::Ident(i) => out.push_str(&i.to_string()),
            TokenTree::Literal(l) => out.push_str(&l.to_string()),
            TokenTree::Punct(p) => {
                out.push(p.as_char());
                if p.spacing() == Spacing::Joint {
                    joint = true;
                }
            }
        }
    }
}

pub fn pretty(ts: &TokenStream, indent: usize) -> String {
    let mut out = String::new();
    let mut line = String::new();
    pretty_into(ts.clone(), indent, true, &mut out, &mut line);
    if !line.trim().is_empty() {
        out.push_str(&" ".repeat(indent * 4));
        out.push_str(line.trim());
        out.push('\n');
    }
    out
}

fn flush(out: &mut String, line: &mut String, indent: usize) {
    if !line.trim().is_empty() {
        out.push_str(&" ".repeat(indent * 4));
        out.push_str(line.trim());
        out.push('\n');
    }
    line.clear();
}

fn pretty_into(ts: TokenStream, indent: usize, in_brace: bool, out: &mut String, line: &mut String) {
    let mut joint = false;
    for tt in ts {
        if !joint && !line.is_empty() && !line.ends_with(' ') {
            line.push(' ');
        }
        joint = false;
        match tt {
            TokenTree::Group(g) => match g.delimiter() {
                Delimiter::Brace => {
                    line.push('{');
                    flush(out, line, indent);
                    pretty_into(g.stream(), indent + 1, true, out, line);
                    flush(out, line, indent + 1);
                    line.push('}');
                    // keep `} else {`, `};`, `})`, `},` on one line: do not flush here; the
                    // next token decides.
                }
                d => {
                    let (o, c) = match d {
                        Delimiter::Parenthesis => ("(", ")"),
                        Delimiter::Bracket => ("[", "]"),
                        _ => ("", ""),
                    };
                    line.push_str(o);
                    pretty_into(g.stream(), indent, false, out, line);
                    line.push_str(c);
                }
            },
            TokenTree::Ident(i) => {
                let s = i.to_string();
                if in_brace && line.trim_end().ends_with('}') && s != "else" {
                    // start a new line after a closing brace unless it continues with `else`
                    let keep = line.trim_end().to_string();
                    line.clear();
                    line.push_str(&keep);
                    flush(out, line, indent);
                }
                line.push_str(&s);
            }
            TokenTree::Literal(l) => line.push_str(&l.to_string()),
            TokenTree::Punct(p) => {
                line.push(p.as_char());
                if p.spacing() == Spacing::Joint {
                    joint = true;
                } else if in_brace && p.as_char() == ';' {
                    flush(out, line, indent);
                }
            }
        }
    }
}
