//! Verbatim slices of generator source (layer G). Filled in by later steps.
use serde_json::{json, Value};

pub fn slice(_src: &str, _what: &str) -> Value {
    json!({})
}
