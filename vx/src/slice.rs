//! Verbatim slices of generator source (layer G).
//!
//! `vx slice <file.rs> <spec.json>`; spec = {"items": [ {"id": .., "fn": <function name>,
//! "let": <binding name>} | {"id": .., "fn": .., "for_over": <flat text prefix of the iterated
//! expression>, "with_preceding_lets": [names]} | {"id": .., "fn": .., "stmt_prefix": <flat text prefix of
//! one statement in any block>} | {"id": .., "enum": <name>} ], "overlay": {id: overlay}}
//! Each slice is printed token-for-token as it stands in the file (pretty-printed), with only the
//! annotation overlay spliced in.
use crate::pp;
use crate::rewrite::annotate_slice;
use quote::ToTokens;
use serde_json::{json, Map, Value};
use syn::visit::Visit;
use syn::*;

struct FindFn<'a> {
    name: &'a str,
    found: Vec<Block>,
}
impl<'a, 'ast> Visit<'ast> for FindFn<'a> {
    fn visit_impl_item_fn(&mut self, f: &'ast ImplItemFn) {
        if f.sig.ident == self.name {
            self.found.push(f.block.clone());
        }
        visit::visit_impl_item_fn(self, f);
    }
    fn visit_item_fn(&mut self, f: &'ast ItemFn) {
        if f.sig.ident == self.name {
            self.found.push((*f.block).clone());
        }
        visit::visit_item_fn(self, f);
    }
}

/// all statement lists of a block, recursively (blocks of if/else/loops/let-else/closures)
struct StmtLists {
    lists: Vec<Vec<Stmt>>,
}
impl<'ast> Visit<'ast> for StmtLists {
    fn visit_block(&mut self, b: &'ast Block) {
        self.lists.push(b.stmts.clone());
        visit::visit_block(self, b);
    }
}

fn flat<T: ToTokens>(t: &T) -> String {
    pp::flat(&t.to_token_stream())
}

fn let_name(s: &Stmt) -> Option<String> {
    if let Stmt::Local(l) = s {
        let mut p = &l.pat;
        if let Pat::Type(pt) = p {
            p = &pt.pat;
        }
        if let Pat::Ident(pi) = p {
            return Some(pi.ident.to_string());
        }
    }
    None
}

pub fn slice(src: &str, spec_path: &str) -> Value {
    let spec: Value = serde_json::from_str(&std::fs::read_to_string(spec_path).expect("read spec")).expect("spec json");
    let file = match syn::parse_file(src) {
        Ok(f) => f,
        Err(e) => return json!({"error": format!("cannot parse: {e}")}),
    };
    let mut out = Map::new();
    let empty = Value::Object(Default::default());
    let overlay = spec.get("overlay").unwrap_or(&empty);
    for item in spec.get("items").and_then(|v| v.as_array()).cloned().unwrap_or_default() {
        let id = item.get("id").and_then(|v| v.as_str()).unwrap_or("?").to_string();
        if let Some(en) = item.get("enum").and_then(|v| v.as_str()) {
            let mut found = None;
            for it in &file.items {
                if let Item::Enum(e) = it {
                    if e.ident == en {
                        found = Some(e.clone());
                    }
                }
            }
            match found {
                Some(e) => {
                    out.insert(id, json!({"text": pp::pretty(&e.to_token_stream(), 0), "raw": flat(&e), "errors": []}));
                }
                None => {
                    out.insert(id, json!({"errors": [format!("enum {en} not found")]}));
                }
            }
            continue;
        }
        let fname = item.get("fn").and_then(|v| v.as_str()).unwrap_or("");
        let mut ff = FindFn { name: fname, found: Vec::new() };
        ff.visit_file(&file);
        if ff.found.len() != 1 {
            out.insert(id, json!({"errors": [format!("function {fname}: {} definitions found", ff.found.len())]}));
            continue;
        }
        let mut sl = StmtLists { lists: Vec::new() };
        sl.visit_block(&ff.found[0]);
        let mut picked: Vec<Vec<Stmt>> = Vec::new();
        if let Some(name) = item.get("let").and_then(|v| v.as_str()) {
            // top-level statements of the function only
            if let Some(l) = sl.lists.first() {
                for s in l {
                    if let_name(s).as_deref() == Some(name) {
                        picked.push(vec![s.clone()]);
                    }
                }
            }
        } else if let Some(name) = item.get("let_with_next").and_then(|v| v.as_str()) {
            // a `let [mut] NAME = …` whose initialiser contains `must_contain`, in any block of the
            // function, together with the statement that directly follows it in the same block
            let needle = item.get("must_contain").and_then(|v| v.as_str()).unwrap_or("");
            for l in &sl.lists {
                for (i, s) in l.iter().enumerate() {
                    if let_name(s).as_deref() == Some(name) && flat(s).contains(needle) {
                        let mut v = vec![s.clone()];
                        if let Some(n) = l.get(i + 1) {
                            v.push(n.clone());
                        }
                        picked.push(v);
                    }
                }
            }
        } else if let Some(prefix) = item.get("stmt_prefix").and_then(|v| v.as_str()) {
            // any single statement, in any block of the function, whose flat text starts with the prefix
            let needle = item.get("must_contain").and_then(|v| v.as_str()).unwrap_or("");
            for l in &sl.lists {
                for s in l.iter() {
                    let ft = flat(s);
                    if ft.starts_with(prefix) && ft.contains(needle) {
                        picked.push(vec![s.clone()]);
                    }
                }
            }
        } else if let Some(prefix) = item.get("for_over").and_then(|v| v.as_str()) {
            let pre: Vec<String> = item
                .get("with_preceding_lets")
                .and_then(|v| v.as_array())
                .map(|a| a.iter().filter_map(|x| x.as_str().map(|s| s.to_string())).collect())
                .unwrap_or_default();
            for l in &sl.lists {
                for (i, s) in l.iter().enumerate() {
                    let is_for = match s {
                        Stmt::Expr(Expr::ForLoop(f), _) => flat(&f.expr).starts_with(prefix),
                        _ => false,
                    };
                    if is_for {
                        let mut v = Vec::new();
                        for p in l[..i].iter() {
                            if let Some(n) = let_name(p) {
                                if pre.contains(&n) {
                                    v.push(p.clone());
                                }
                            }
                        }
                        v.push(s.clone());
                        picked.push(v);
                    }
                }
            }
        }
        if picked.len() != 1 {
            let msg = format!("slice {id}: {} matches (need exactly 1)", picked.len()); out.insert(id, json!({"errors": [msg]}));
            continue;
        }
        let (text, raw, errors, templates) = annotate_slice(picked.remove(0), overlay.get(&id));
        out.insert(id, json!({"text": text, "raw": raw, "errors": errors, "quote_templates": templates}));
    }
    Value::Object(out)
}
