#!/bin/bash
# tools/try_seed.sh <patch.diff> <Cxx> [<Cyy> ...] : apply a seeded change to /repo, run the checks, undo it
set -u
patch="$1"; shift
cd /repo || exit 2
git diff --quiet || { echo "/repo has uncommitted changes"; exit 2; }
git apply "$patch" || { echo "patch does not apply"; exit 2; }
cd /verif
for p in "$@"; do
  echo "=== $p"
  ./check "$p" 2>&1 | grep -E "^(VIOLATION|UNDECIDED|KNOWN|property|  failed)" | cut -c1-400 | head -12
  echo "exit=${PIPESTATUS[0]}"
done
git -C /repo checkout -- .
git -C /repo status --short | head -3
