#!/bin/bash
# tools/try_seed_wt.sh <patch.diff> <Cxx> [...] : like try_seed.sh but on a scratch worktree of /repo's HEAD
# (VERIF_REPO), so that /repo itself is not touched; used only for running several experiments side by side
set -u
patch="$1"; shift
wt=$(mktemp -d /tmp/seedwt-XXXXXX)
git -C /repo worktree add -q --detach "$wt" HEAD || exit 2
( cd "$wt" && git apply "$patch" ) || { echo "patch does not apply"; git -C /repo worktree remove --force "$wt"; exit 2; }
cd /verif
for p in "$@"; do
  echo "=== $p"
  VERIF_REPO="$wt" ./check "$p" 2>&1 | grep -E "^(VIOLATION|UNDECIDED|KNOWN|property|  failed)" | grep -v "^KNOWN" | cut -c1-400 | head -9
  echo "exit=${PIPESTATUS[0]}"
done
git -C /repo worktree remove --force "$wt"
