#!/usr/bin/env python3
"""Regenerate MANIFEST.json from lib/props.py (claimed properties) and tools/not_applicable.json."""
import json
import os
import sys

sys.path.insert(0, os.path.dirname(os.path.dirname(os.path.abspath(__file__))))
from lib import props  # noqa: E402

ROOT = os.path.dirname(os.path.dirname(os.path.abspath(__file__)))
na = json.load(open(os.path.join(ROOT, "tools", "not_applicable.json")))
all_ids = [json.loads(l)["id"] for l in open(os.path.join(ROOT, "properties.jsonl"))]

m = {
    "version": 1,
    "setup_cmd": "cd /verif/vx && cargo build --release --offline",
    "hooks": {
        "guard": "enum_tools_verif",
        "enable": "no hooks are needed: the machinery reads /repo's sources and the real macro expansion; the guard name is reserved (--cfg enum_tools_verif)",
        "baseline_off_cmd": "cd /repo && (cargo nextest run --workspace --no-fail-fast --offline || cargo test --workspace --no-fail-fast --offline)",
        "source_commits": [],
        "add_only": True,
    },
    "engines": props.ENGINES,
    "checks": [],
    "notes": "see DESIGN.md; exit codes: 0 held, 1 violation (VIOLATION line), 2 undecided (never an alarm). fix: commits in /repo and known findings are listed in known_findings.json",
    "not_applicable": [],
}
for pid in all_ids:
    if pid in props.PROPS and not props.PROPS[pid].get("auxiliary"):
        p = props.PROPS[pid]
        m["checks"].append({
            "property_id": pid,
            "quick_cmd": "./check %s --tier quick" % pid,
            "thorough_cmd": "./check %s --tier thorough" % pid,
            "evidence_file": "/verif/evidence/%s.json" % pid,
            "replay_cmd_template": "./check %s --replay {path}" % pid,
            "engine": " + ".join("layer-" + l for l in p["layers"]),
            "level_claimed": {"category": p["level"], "text": p["claim"], "design_ref": "DESIGN.md §4 " + pid},
            "level_note": p.get("note", props.DEFAULT_NOTE),
            "technique": p.get("technique", props.DEFAULT_TECHNIQUE),
        })
    else:
        m["not_applicable"].append({"property_id": pid, "reason": na[pid]})
json.dump(m, open(os.path.join(ROOT, "MANIFEST.json"), "w"), indent=1)
print("claimed:", [c["property_id"] for c in m["checks"]])
print("not applicable:", [c["property_id"] for c in m["not_applicable"]])
