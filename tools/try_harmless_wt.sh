#!/bin/bash
# like try_harmless.sh, on a scratch worktree (VERIF_REPO) so that /repo is not touched
patch="$1"
wt=$(mktemp -d /tmp/seedwt-XXXXXX)
git -C /repo worktree add -q --detach "$wt" HEAD || exit 2
( cd "$wt" && git apply "$patch" ) || { echo "patch does not apply"; git -C /repo worktree remove --force "$wt"; exit 2; }
cd /verif
for p in C01 C02 C03 C04 C05 C06 C07 C08 C09 C10 C11 C15 C16 C17 C18 C19; do
  out=$(VERIF_REPO="$wt" ./check "$p" 2>&1); rc=$?
  echo "$p exit=$rc $(echo "$out" | grep -c '^VIOLATION') violation-lines; $(echo "$out" | grep -E '^(UNDECIDED|  failed)' | head -1 | cut -c1-200 | tr '\n' ' ')"
done
git -C /repo worktree remove --force "$wt"
