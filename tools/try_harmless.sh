#!/bin/bash
# tools/try_harmless.sh <patch.diff> : apply a behaviour-preserving change, run EVERY check, report alarms
patch="$1"
cd /repo || exit 2
git diff --quiet || { echo "/repo has uncommitted changes"; exit 2; }
git apply "$patch" || { echo "patch does not apply"; exit 2; }
cd /verif
for p in C01 C02 C03 C04 C05 C06 C07 C08 C09 C10 C11 C15 C16 C17 C18 C19; do
  out=$(./check "$p" 2>&1); rc=$?
  echo "$p exit=$rc $(echo "$out" | grep -c '^VIOLATION') violation-lines; $(echo "$out" | grep -E '^(UNDECIDED|  failed)' | head -2 | cut -c1-260 | tr '\n' ' ')"
done
git -C /repo checkout -- . ; git -C /repo clean -fdq src
