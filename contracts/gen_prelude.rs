// ---------------------------------------------------------------------------------------------
// layer G prelude: specification vocabulary and lemmas for the generator slices (DESIGN §3.2).
// Nothing here is code of /repo.
// ---------------------------------------------------------------------------------------------
#![allow(unused_imports, unused_variables, unused_mut, dead_code, unused_parens, unused_braces, non_snake_case)]
use vstd::prelude::*;
use vstd::std_specs::iter::IteratorSpec;
verus! {

pub open spec fn keys<V>(v: Seq<(i64, V)>) -> Seq<int> { v.map_values(|e: (i64, V)| e.0 as int) }
pub open spec fn sorted_strict(k: Seq<int>) -> bool { forall|i: int, j: int| 0 <= i < j < k.len() ==> k[i] < k[j] }
/// x is one of the first n keys
pub open spec fn has(k: Seq<int>, n: int, x: int) -> bool { exists|i: int| 0 <= i < n && i < k.len() && #[trigger] k[i] == x }
pub open spec fn in_runs(r: Seq<(i64, i64)>, x: int) -> bool { exists|j: int| 0 <= j < r.len() && (#[trigger] r[j]).0 <= x && x <= r[j].1 }
/// runs are non-empty, ascending and separated by at least one missing value (i.e. maximal)
pub open spec fn wf_r(r: Seq<(i64, i64)>) -> bool {
    &&& forall|j: int| 0 <= j < r.len() ==> (#[trigger] r[j]).0 <= r[j].1
    &&& forall|j: int, l: int| 0 <= j < l < r.len() ==> (#[trigger] r[j]).1 + 1 < (#[trigger] r[l]).0
}
/// `r` is exactly the list of maximal runs of the key list `k`
pub open spec fn is_runs(r: Seq<(i64, i64)>, k: Seq<int>) -> bool {
    &&& r.len() >= 1
    &&& wf_r(r)
    &&& forall|x: int| has(k, k.len() as int, x) <==> in_runs(r, x)
    &&& r[0].0 == k[0]
    &&& r.last().1 == k.last()
}
/// the keys seen so far are exactly covered by the closed runs plus the open run [b, l]
pub open spec fn cov(k: Seq<int>, n: int, r: Seq<(i64, i64)>, b: int, l: int) -> bool {
    forall|x: int| has(k, n, x) <==> (in_runs(r, x) || (b <= x && x <= l))
}
/// number of values in the runs before run k
pub open spec fn before(r: Seq<(i64, i64)>, k: int) -> int
    decreases k
{
    if k <= 0 { 0 } else { before(r, k - 1) + (r[k - 1].1 - r[k - 1].0 + 1) }
}

pub proof fn lemma_cov_init(k: Seq<int>, r: Seq<(i64, i64)>, b: int)
    requires k.len() >= 1, r.len() == 0, b == k[0],
    ensures cov(k, 1, r, b, b),
{
    assert forall|x: int| has(k, 1, x) <==> (in_runs(r, x) || (b <= x && x <= b)) by {
        if x == b { assert(k[0] == x); }
    }
}
pub proof fn lemma_cov_same(k: Seq<int>, n: int, r: Seq<(i64, i64)>, b: int, l: int)
    requires 1 <= n < k.len(), cov(k, n, r, b, l), k[n] == l + 1, b <= l,
    ensures cov(k, n + 1, r, b, l + 1),
{
    assert forall|x: int| has(k, n + 1, x) <==> (in_runs(r, x) || (b <= x && x <= l + 1)) by {
        if has(k, n + 1, x) {
            let i = choose|i: int| 0 <= i < n + 1 && i < k.len() && k[i] == x;
            if i < n { assert(has(k, n, x)); }
        }
        if in_runs(r, x) || (b <= x && x <= l) {
            assert(has(k, n, x));
            let i = choose|i: int| 0 <= i < n && i < k.len() && k[i] == x;
            assert(0 <= i < n + 1 && k[i] == x);
        }
        if x == l + 1 { assert(k[n] == x); }
    }
}
pub proof fn lemma_runs_push(r: Seq<(i64, i64)>, r2: Seq<(i64, i64)>, b: i64, l: i64)
    requires r2 == r.push((b, l)),
    ensures forall|x: int| #![trigger in_runs(r2, x)] in_runs(r2, x) <==> (in_runs(r, x) || (b <= x && x <= l)),
{
    assert forall|x: int| #![trigger in_runs(r2, x)] in_runs(r2, x) <==> (in_runs(r, x) || (b <= x && x <= l)) by {
        if in_runs(r, x) {
            let j = choose|j: int| 0 <= j < r.len() && r[j].0 <= x && x <= r[j].1;
            assert(r2[j] == r[j]);
        }
        if b <= x && x <= l { assert(r2[r.len() as int] == (b, l)); }
        if in_runs(r2, x) {
            let j = choose|j: int| 0 <= j < r2.len() && r2[j].0 <= x && x <= r2[j].1;
            if j < r.len() { assert(r2[j] == r[j]); } else { assert(r2[j] == (b, l)); }
        }
    }
}
pub proof fn lemma_cov_new(k: Seq<int>, n: int, r: Seq<(i64, i64)>, r2: Seq<(i64, i64)>, b: i64, l: i64)
    requires 1 <= n < k.len(), cov(k, n, r, b as int, l as int), r2 == r.push((b, l)),
    ensures cov(k, n + 1, r2, k[n], k[n]),
{
    lemma_runs_push(r, r2, b, l);
    assert forall|x: int| has(k, n + 1, x) <==> (in_runs(r2, x) || (k[n] <= x && x <= k[n])) by {
        if has(k, n + 1, x) {
            let i = choose|i: int| 0 <= i < n + 1 && i < k.len() && k[i] == x;
            if i < n { assert(has(k, n, x)); }
        }
        assert(in_runs(r2, x) <==> (in_runs(r, x) || (b <= x && x <= l)));
        if in_runs(r2, x) {
            assert(in_runs(r, x) || (b <= x && x <= l));
            assert(has(k, n, x));
            let i = choose|i: int| 0 <= i < n && i < k.len() && k[i] == x;
            assert(0 <= i < n + 1 && k[i] == x);
        }
        if x == k[n] { assert(k[n] == x); }
    }
}
pub proof fn lemma_cov_final(k: Seq<int>, r: Seq<(i64, i64)>, r2: Seq<(i64, i64)>, b: i64, l: i64)
    requires cov(k, k.len() as int, r, b as int, l as int), r2 == r.push((b, l)),
    ensures forall|x: int| has(k, k.len() as int, x) <==> in_runs(r2, x),
{
    lemma_runs_push(r, r2, b, l);
    assert forall|x: int| has(k, k.len() as int, x) <==> in_runs(r2, x) by {
        assert(in_runs(r2, x) <==> (in_runs(r, x) || (b <= x && x <= l)));
    }
}
pub proof fn lemma_before_mono(r: Seq<(i64, i64)>, k: int, l: int)
    requires 0 <= k <= l <= r.len(), forall|j: int| 0 <= j < r.len() ==> (#[trigger] r[j]).0 <= r[j].1,
    ensures before(r, k) <= before(r, l), 0 <= before(r, k),
    decreases l,
{
    if k < l { lemma_before_mono(r, k, l - 1); } else if k > 0 { lemma_before_mono(r, k - 1, k - 1); }
}

/// a single run means every value between the smallest and the largest key is a key (gapless)
pub proof fn lemma_single_run_gapless(r: Seq<(i64, i64)>, k: Seq<int>)
    requires is_runs(r, k), r.len() == 1, k.len() >= 1,
    ensures forall|x: int| has(k, k.len() as int, x) <==> (k[0] <= x && x <= k.last()),
{
    assert forall|x: int| has(k, k.len() as int, x) <==> (k[0] <= x && x <= k.last()) by {
        if k[0] <= x && x <= k.last() { assert(r[0].0 <= x && x <= r[0].1); assert(in_runs(r, x)); }
        if has(k, k.len() as int, x) {
            assert(in_runs(r, x));
            let j = choose|j: int| 0 <= j < r.len() && r[j].0 <= x && x <= r[j].1;
            assert(j == 0);
        }
    }
}

// ---- canonical order (C17 / C18): the key-sorted list of a set of entries with pairwise distinct
// keys is unique, whatever order the entries were collected in --------------------------------------
pub open spec fn asc<V>(s: Seq<(int, V)>) -> bool { forall|i: int, j: int| 0 <= i < j < s.len() ==> s[i].0 < s[j].0 }
pub proof fn lemma_canonical_order<V>(a: Seq<(int, V)>, b: Seq<(int, V)>)
    requires asc(a), asc(b), forall|x: (int, V)| a.contains(x) <==> b.contains(x),
    ensures a == b,
    decreases a.len(),
{
    if a.len() == 0 {
        if b.len() > 0 { assert(b.contains(b[0])); assert(a.contains(b[0])); }
        assert(a =~= b);
    } else {
        assert(a.contains(a[0]));
        assert(b.contains(a[0]));
        let j = choose|j: int| 0 <= j < b.len() && b[j] == a[0];
        assert(b.contains(b[0]));
        assert(a.contains(b[0]));
        let i = choose|i: int| 0 <= i < a.len() && a[i] == b[0];
        if j > 0 { assert(b[0].0 < b[j].0); if i > 0 { assert(a[0].0 < a[i].0); } }
        assert(a[0] == b[0]);
        let at = a.drop_first();
        let bt = b.drop_first();
        assert forall|x: (int, V)| at.contains(x) <==> bt.contains(x) by {
            if at.contains(x) {
                let p = choose|p: int| 0 <= p < at.len() && at[p] == x;
                assert(a[p + 1] == x); assert(a.contains(x)); assert(b.contains(x));
                let q = choose|q: int| 0 <= q < b.len() && b[q] == x;
                assert(a[0].0 < a[p + 1].0);
                assert(q > 0);
                assert(bt[q - 1] == x);
            }
            if bt.contains(x) {
                let p = choose|p: int| 0 <= p < bt.len() && bt[p] == x;
                assert(b[p + 1] == x); assert(b.contains(x)); assert(a.contains(x));
                let q = choose|q: int| 0 <= q < a.len() && a[q] == x;
                assert(b[0].0 < b[p + 1].0);
                assert(q > 0);
                assert(at[q - 1] == x);
            }
        }
        assert(asc(at)) by { assert forall|i2: int, j2: int| 0 <= i2 < j2 < at.len() implies at[i2].0 < at[j2].0 by { assert(a[i2 + 1].0 < a[j2 + 1].0); } }
        assert(asc(bt)) by { assert forall|i2: int, j2: int| 0 <= i2 < j2 < bt.len() implies bt[i2].0 < bt[j2].0 by { assert(b[i2 + 1].0 < b[j2 + 1].0); } }
        lemma_canonical_order(at, bt);
        assert(a =~= seq![a[0]] + at);
        assert(b =~= seq![b[0]] + bt);
    }
}

// ---- token construction, abstracted (rules G1/G2): which integer each emitted literal is built from
pub trait IntLike { spec fn as_int(&self) -> int; }
impl IntLike for i64 { open spec fn as_int(&self) -> int { *self as int } }
impl<'a> IntLike for &'a i64 { open spec fn as_int(&self) -> int { **self as int } }
pub struct Repr;
#[verifier::external_body] pub struct Lit { _p: () }
pub uninterp spec fn lit_val(l: Lit) -> int;
/// G1: `LitInt::new(&format!("{X}{repr}"), _)` — a literal with value X and the repr as suffix
#[verifier::external_body] pub fn __lit<T: IntLike>(x: T, repr: &Repr) -> (l: Lit) ensures lit_val(l) == x.as_int() { unimplemented!() }
#[verifier::external_body] pub struct Entry { _p: () }
pub uninterp spec fn entry_off(e: Entry) -> Option<(int, int, int, int)>;
pub uninterp spec fn entry_plain(e: Entry) -> Option<(int, int)>;
/// G2: the two quote! templates of the range table; what the templates MEAN in the user's crate is
/// decided by layer I (emission), here only which integers are interpolated where
#[verifier::external_body] pub fn __quote_0(a: &Lit, b: &Lit, c: &Lit, d: &Lit) -> (e: Entry)
    ensures entry_off(e) == Some((lit_val(*a), lit_val(*b), lit_val(*c), lit_val(*d))), entry_plain(e) is None { unimplemented!() }
#[verifier::external_body] pub fn __quote_1(a: &Lit, b: &Lit) -> (e: Entry)
    ensures entry_plain(e) == Some((lit_val(*a), lit_val(*b))), entry_off(e) is None { unimplemented!() }

} // verus!
