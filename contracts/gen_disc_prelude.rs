// ---------------------------------------------------------------------------------------------
// layer G, second file: shim types, vocabulary and lemmas for the discriminant evaluation sliced
// verbatim from parser/values.rs (`parse_values`).  Nothing here is code of /repo.
//
// Shim types stand for the syn / proc_macro2 types the sliced statements pattern-match on.  They have
// the same names, the same variant / field names and the same nesting as the real ones as far as the
// slice looks at them; every syn::Expr / syn::Lit / syn::UnOp variant the slice does not name is
// represented by `Other` (Expr, Lit) or listed (UnOp).  `emit_error!` becomes a call of `__emit`, whose
// precondition is `false`: inside the documented domain no diagnostic may be reachable.
// ---------------------------------------------------------------------------------------------
#![allow(unused_imports, unused_variables, unused_mut, dead_code, unused_parens, unused_braces, non_snake_case, unused_assignments)]
use vstd::prelude::*;
use std::collections::HashMap;
macro_rules! emit_error { ($s:expr, $e:expr) => { __emit($e) } }
verus! {
pub struct Span;
pub struct Ident;
pub struct Attribute;
pub struct Token;
pub enum UnOp { Deref(Token), Not(Token), Neg(Token) }
#[verifier::external_body]
pub struct LitInt { x: u8 }
/// the mathematical value of the digits of an integer literal (any base, `_` separators and a type
/// suffix ignored) — what syn's `base10_digits` denotes
pub uninterp spec fn lit_mag(l: &LitInt) -> nat;
pub struct ParseErr;
pub trait VxNum: Sized {
    spec fn fits(x: int) -> bool;
    spec fn val(&self) -> int;
}
impl VxNum for i128 {
    open spec fn fits(x: int) -> bool { i128::MIN <= x <= i128::MAX }
    open spec fn val(&self) -> int { *self as int }
}
impl VxNum for i64 {
    open spec fn fits(x: int) -> bool { i64::MIN <= x <= i64::MAX }
    open spec fn val(&self) -> int { *self as int }
}
impl VxNum for u64 {
    open spec fn fits(x: int) -> bool { 0 <= x <= u64::MAX }
    open spec fn val(&self) -> int { *self as int }
}
impl VxNum for u128 {
    open spec fn fits(x: int) -> bool { 0 <= x <= u128::MAX }
    open spec fn val(&self) -> int { *self as int }
}
impl LitInt {
    /// assumed contract of syn::LitInt::base10_parse::<N> for a primitive integer N: `str::parse` of the
    /// decimal digits succeeds exactly when the value fits N
    #[verifier::external_body]
    pub fn base10_parse<N: VxNum>(&self) -> (r: Result<N, ParseErr>)
        ensures match r { Ok(v) => N::fits(lit_mag(self) as int) && v.val() == lit_mag(self), Err(_) => !N::fits(lit_mag(self) as int) }
    { unimplemented!() }
}
pub struct LitStr;
pub enum Lit { Str(LitStr), Int(LitInt), Other }
pub struct ExprLit { pub attrs: Vec<Attribute>, pub lit: Lit }
pub struct ExprUnary { pub attrs: Vec<Attribute>, pub op: UnOp, pub expr: Box<Expr> }
pub enum Expr { Lit(ExprLit), Unary(ExprUnary), Other }
pub struct Variant { pub ident: Ident, pub discriminant: Option<(Token, Expr)> }
pub enum Error { FieldsNotValueSorted, DuplicateValue, NoI64, NotInteger, I64Overflow, FieldsNotNameSorted, OnlyUnitField, UnsupportedAttributeType, NoVariantsFound, NoEnum }
pub struct FeatureSorted { pub name: bool, pub value: bool }

/// a diagnostic; unreachable for declarations in the documented domain
pub fn __emit(e: Error) requires false { }

// ---- the property's side: what a discriminant expression denotes -----------------------------
pub enum DiscAbs { Implicit, Lit(bool, nat), Other }

pub open spec fn lit_of(e: Expr) -> Option<nat> {
    match e { Expr::Lit(ExprLit { lit: Lit::Int(l), .. }) => Some(lit_mag(&l)), _ => None }
}
/// implicit, `<int literal>`, `-<int literal>`; everything else is outside the documented domain
pub open spec fn disc_abs(d: Option<(Token, Expr)>) -> DiscAbs {
    match d {
        None => DiscAbs::Implicit,
        Some((_, e)) => match e {
            Expr::Unary(ExprUnary { attrs, op: UnOp::Neg(_), expr }) =>
                if attrs@.len() == 0 { match lit_of(*expr) { Some(m) => DiscAbs::Lit(true, m), None => DiscAbs::Other } } else { DiscAbs::Other },
            _ => match lit_of(e) { Some(m) => DiscAbs::Lit(false, m), None => DiscAbs::Other },
        },
    }
}
/// the language rule (Reference, "Enumerations / Discriminants"): an explicit discriminant is its value,
/// an implicit one is the previous variant's + 1, and 0 for the first (prev = -1)
pub open spec fn rustc_val(a: DiscAbs, prev: int) -> int {
    match a { DiscAbs::Implicit => prev + 1, DiscAbs::Lit(neg, m) => if neg { -(m as int) } else { m as int }, DiscAbs::Other => arbitrary() }
}
/// discriminant the compiler assigns to variant k of a declaration
pub open spec fn rustc_disc(decl: Seq<DiscAbs>, k: int) -> int
    decreases k + 1
{
    if k < 0 { -1 } else { rustc_val(decl[k], rustc_disc(decl, k - 1)) }
}
/// the documented domain, as far as discriminants go: literals or implicit, within i64, pairwise different
pub open spec fn in_domain(decl: Seq<DiscAbs>) -> bool {
    &&& forall|k: int| 0 <= k < decl.len() ==> !(#[trigger] decl[k] is Other)
    &&& forall|k: int| 0 <= k < decl.len() ==> i64::MIN <= #[trigger] rustc_disc(decl, k) <= i64::MAX
    &&& forall|j: int, k: int| 0 <= j < k < decl.len() ==> #[trigger] rustc_disc(decl, j) != #[trigger] rustc_disc(decl, k)
}
/// the state sequence of a loop whose initial state satisfies g_disc_init's postcondition and whose
/// every iteration satisfies g_disc_step's (maps: discriminant -> index of the variant)
pub open spec fn loop_trace(decl: Seq<DiscAbs>, lasts: Seq<int>, maps: Seq<Map<i64, int>>) -> bool {
    &&& lasts.len() == decl.len() + 1
    &&& maps.len() == decl.len() + 1
    &&& lasts[0] == -1
    &&& maps[0] == Map::<i64, int>::empty()
    &&& forall|k: int| 0 <= k < decl.len() ==> #[trigger] lasts[k + 1] == rustc_val(decl[k], lasts[k])
    &&& forall|k: int| 0 <= k < decl.len() ==> #[trigger] maps[k + 1] == maps[k].insert(lasts[k + 1] as i64, k)
}

pub proof fn lemma_trace_prefix(decl: Seq<DiscAbs>, lasts: Seq<int>, maps: Seq<Map<i64, int>>, m: int)
    requires loop_trace(decl, lasts, maps), in_domain(decl), 0 <= m <= decl.len(),
    ensures
        lasts[m] == rustc_disc(decl, m - 1),
        forall|j: int| 0 <= j < m ==> maps[m].contains_key(#[trigger] rustc_disc(decl, j) as i64) && maps[m][rustc_disc(decl, j) as i64] == j,
        forall|x: i64| #[trigger] maps[m].contains_key(x) ==> exists|j: int| 0 <= j < m && x as int == rustc_disc(decl, j),
    decreases m,
{
    if m > 0 {
        lemma_trace_prefix(decl, lasts, maps, m - 1);
        let k = m - 1;
        assert(lasts[k + 1] == rustc_val(decl[k], lasts[k]));
        assert(maps[k + 1] == maps[k].insert(lasts[k + 1] as i64, k));
        assert(lasts[m] == rustc_disc(decl, k));
        assert forall|j: int| 0 <= j < m implies maps[m].contains_key(#[trigger] rustc_disc(decl, j) as i64) && maps[m][rustc_disc(decl, j) as i64] == j by {
            if j < k { assert(rustc_disc(decl, j) != rustc_disc(decl, k)); }
        }
        assert forall|x: i64| #[trigger] maps[m].contains_key(x) implies exists|j: int| 0 <= j < m && x as int == rustc_disc(decl, j) by {
            if x as int == rustc_disc(decl, k) { } else {
                assert(maps[k].contains_key(x));
                let j = choose|j: int| 0 <= j < k && x as int == rustc_disc(decl, j);
                assert(0 <= j < m && x as int == rustc_disc(decl, j));
            }
        }
    }
}

/// Declaration level: for every declaration of the documented domain, (1) each iteration meets the
/// precondition of g_disc_step — so no diagnostic is reachable —, and (2) the final map associates
/// exactly the compiler's discriminant with each variant.
pub proof fn lemma_disc_sequence(decl: Seq<DiscAbs>, lasts: Seq<int>, maps: Seq<Map<i64, int>>)
    requires loop_trace(decl, lasts, maps), in_domain(decl),
    ensures
        forall|k: int| 0 <= k < decl.len() ==> {
            &&& !(#[trigger] decl[k] is Other)
            &&& i64::MIN <= rustc_val(decl[k], lasts[k]) <= i64::MAX
            &&& !maps[k].contains_key(rustc_val(decl[k], lasts[k]) as i64)
            &&& lasts[k + 1] == rustc_disc(decl, k)
        },
        forall|k: int| 0 <= k < decl.len() ==> maps[decl.len() as int].contains_key(#[trigger] rustc_disc(decl, k) as i64) && maps[decl.len() as int][rustc_disc(decl, k) as i64] == k,
        forall|x: i64| #[trigger] maps[decl.len() as int].contains_key(x) ==> exists|k: int| 0 <= k < decl.len() && x as int == rustc_disc(decl, k),
{
    lemma_trace_prefix(decl, lasts, maps, decl.len() as int);
    assert forall|k: int| 0 <= k < decl.len() implies {
            &&& !(#[trigger] decl[k] is Other)
            &&& i64::MIN <= rustc_val(decl[k], lasts[k]) <= i64::MAX
            &&& !maps[k].contains_key(rustc_val(decl[k], lasts[k]) as i64)
            &&& lasts[k + 1] == rustc_disc(decl, k)
        } by {
        lemma_trace_prefix(decl, lasts, maps, k);
        lemma_trace_prefix(decl, lasts, maps, k + 1);
        assert(rustc_val(decl[k], lasts[k]) == rustc_disc(decl, k));
        if maps[k].contains_key(rustc_disc(decl, k) as i64) {
            let j = choose|j: int| 0 <= j < k && (rustc_disc(decl, k) as i64) as int == rustc_disc(decl, j);
            assert(rustc_disc(decl, j) != rustc_disc(decl, k));
        }
    }
}

} // verus!
